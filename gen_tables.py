"""Files generated at check time into <scratch>/harness/gen/."""
import os


def generate(gendir, seed, tier, src):
    with open(os.path.join(gendir, "params.rs"), "w") as f:
        f.write("// generated: seed-dependent shape parameters\n")
        f.write("pub const VERIF_SEED: u64 = %d;\n" % seed)
