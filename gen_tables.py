"""Files generated at check time into <scratch>/harness/gen/ (reference tables computed
independently of the repository; seed-dependent shape parameters)."""
import os


def pi_hex_words(nwords):
    """First nwords 32-bit words of the fractional part of pi, via Machin's formula on big
    integers: pi = 16 atan(1/5) - 4 atan(1/239)."""
    bits = 32 * nwords + 64
    one = 1 << bits

    def atan_inv(x):
        # atan(1/x) * one
        total = 0
        term = one // x
        x2 = x * x
        n = 1
        sign = 1
        while term:
            total += sign * (term // n)
            term //= x2
            n += 2
            sign = -sign
        return total

    pi = 16 * atan_inv(5) - 4 * atan_inv(239)
    frac = pi - 3 * one
    frac >>= 64  # drop guard bits
    words = []
    for i in range(nwords):
        shift = 32 * (nwords - 1 - i)
        words.append((frac >> shift) & 0xFFFFFFFF)
    return words


def generate(gendir, seed, tier, src):
    with open(os.path.join(gendir, "params.rs"), "w") as f:
        f.write("// generated: seed-dependent shape parameters\n")
        f.write("pub const VERIF_SEED: u64 = %d;\n" % seed)
    w = pi_hex_words(18 + 1024)
    assert w[0] == 0x243F6A88 and w[18] == 0xD1310BA6, "pi generator self-test failed"
    with open(os.path.join(gendir, "pi.rs"), "w") as f:
        f.write("// generated at check time: hexadecimal digits of the fractional part of pi (Machin, big integers)\n")
        f.write("pub const REF_P: [u32; 18] = [%s];\n" % ", ".join("0x%08x" % x for x in w[:18]))
        f.write("pub const REF_S: [[u32; 256]; 4] = [\n")
        for b in range(4):
            f.write("  [%s],\n" % ", ".join("0x%08x" % x for x in w[18 + 256 * b: 18 + 256 * (b + 1)]))
        f.write("];\n")
