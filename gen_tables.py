"""Files generated at check time into <scratch>/harness/gen/ (reference tables computed
independently of the repository; seed-dependent shape parameters)."""
import os


def pi_hex_words(nwords):
    """First nwords 32-bit words of the fractional part of pi, via Machin's formula on big
    integers: pi = 16 atan(1/5) - 4 atan(1/239)."""
    bits = 32 * nwords + 64
    one = 1 << bits

    def atan_inv(x):
        # atan(1/x) * one
        total = 0
        term = one // x
        x2 = x * x
        n = 1
        sign = 1
        while term:
            total += sign * (term // n)
            term //= x2
            n += 2
            sign = -sign
        return total

    pi = 16 * atan_inv(5) - 4 * atan_inv(239)
    frac = pi - 3 * one
    frac >>= 64  # drop guard bits
    words = []
    for i in range(nwords):
        shift = 32 * (nwords - 1 - i)
        words.append((frac >> shift) & 0xFFFFFFFF)
    return words


def generate(gendir, seed, tier, src):
    import random
    rnd = random.Random(seed)
    fixed_pad = {0, 1, 55, 56, 57, 63, 64, 65, 119, 120, 128, 183, 184}
    pad_len = rnd.choice([n for n in range(2, 190) if n not in fixed_pad])
    block_len = rnd.choice([n for n in range(2, 250) if n not in (111, 112, 113, 128, 240)])
    img_w, img_h = rnd.randint(1, 9), rnd.randint(1, 9)
    cell_off = rnd.randint(0, 8)
    with open(os.path.join(gendir, "params.rs"), "w") as f:
        f.write("// generated: seed-dependent shape parameters (VERIF_SEED picks the extra concrete shapes)\n")
        f.write("pub const VERIF_SEED: u64 = %d;\n" % seed)
        f.write("pub const SHA1_PAD_LEN: usize = %d;\n" % pad_len)
        f.write("pub const PATCH_BLOCK_LEN: usize = %d;\n" % block_len)
        f.write("pub const IMG_W: usize = %d;\npub const IMG_H: usize = %d;\n" % (img_w, img_h))
        f.write("pub const CELL_OFF: usize = %d;\n" % cell_off)
    with open(os.path.join(gendir, "params.json"), "w") as f:
        import json
        json.dump({"seed": seed, "SHA1_PAD_LEN": pad_len, "PATCH_BLOCK_LEN": block_len, "IMG_W": img_w, "IMG_H": img_h, "CELL_OFF": cell_off}, f)
    w = pi_hex_words(18 + 1024)
    assert w[0] == 0x243F6A88 and w[18] == 0xD1310BA6, "pi generator self-test failed"
    with open(os.path.join(gendir, "pi.rs"), "w") as f:
        f.write("// generated at check time: hexadecimal digits of the fractional part of pi (Machin, big integers)\n")
        f.write("pub const REF_P: [u32; 18] = [%s];\n" % ", ".join("0x%08x" % x for x in w[:18]))
        f.write("pub const REF_S: [[u32; 256]; 4] = [\n")
        for b in range(4):
            f.write("  [%s],\n" % ", ".join("0x%08x" % x for x in w[18 + 256 * b: 18 + 256 * (b + 1)]))
        f.write("];\n")
