#![allow(static_mut_refs, unused_imports, dead_code, unused_unsafe)]
// Kani harnesses for src/bcn (child module of `bcn`)
use super::*;
use crate::verif_support::bcn_ref::*;

fn any_pixel_index() -> usize {
    let i: usize = kani::any();
    kani::assume(i < 16);
    i
}

/// BC1 block: every endpoint pair, every selector, both modes.
#[kani::proof]
#[kani::unwind(18)]
fn c13_bc1_block() {
    let data: [u8; 8] = kani::any();
    let mut out: [u32; 16] = kani::any();
    decode_bc1_block(&data, &mut out);
    let i = any_pixel_index();
    let (r, g, b, a) = unpack_bgra(out[i]);
    let (er, eg, eb, ea) = bc1_pixel(&data, i);
    assert_eq!((r, g, b), (er, eg, eb));
    if let Some(ea) = ea {
        assert_eq!(a, ea);
    }
    kani::cover!(ea.is_none());
    kani::cover!(ea.is_some());
}

fn bc3_alpha_channel(channel: usize) {
    let data: [u8; 8] = kani::any();
    let before: [u32; 16] = kani::any();
    let mut out = before;
    bc3::decode_bc3_alpha(&data, &mut out, channel);
    let i = any_pixel_index();
    let shift = 8 * channel;
    assert_eq!((out[i] >> shift) & 0xff, bc4_value(&data, i));
    // only the addressed channel changes
    let mask = !(0xffu32 << shift);
    assert_eq!(out[i] & mask, before[i] & mask);
    kani::cover!(data[0] > data[1]);
    kani::cover!(data[0] <= data[1]);
}
#[kani::proof]
#[kani::unwind(18)]
fn c13_bc3_alpha_ch3() { bc3_alpha_channel(3); }
#[kani::proof]
#[kani::unwind(18)]
fn c13_bc3_alpha_ch2() { bc3_alpha_channel(2); }
#[kani::proof]
#[kani::unwind(18)]
fn c13_bc3_alpha_ch1() { bc3_alpha_channel(1); }

/// BC3 = interpolated alpha block (bytes 0..8) over a BC1 colour block (bytes 8..16).
#[kani::proof]
#[kani::unwind(18)]
fn c13_bc3_block() {
    let data: [u8; 16] = kani::any();
    let mut out: [u32; 16] = kani::any();
    decode_bc3_block(&data, &mut out);
    let i = any_pixel_index();
    let (r, g, b, a) = unpack_bgra(out[i]);
    let (er, eg, eb, _) = bc1_pixel(&data[8..], i);
    assert_eq!((r, g, b), (er, eg, eb));
    assert_eq!(a, bc4_value(&data[..8], i));
    kani::cover!(true);
}

/// BC5 = two interpolated channels: first block -> red, second -> green; blue/alpha untouched
/// (the image decoder initialises them to 0 / 255).
#[kani::proof]
#[kani::unwind(18)]
fn c13_bc5_block() {
    let data: [u8; 16] = kani::any();
    let before: [u32; 16] = kani::any();
    let mut out = before;
    decode_bc5_block(&data, &mut out);
    let i = any_pixel_index();
    let (r, g, b, a) = unpack_bgra(out[i]);
    assert_eq!(r, bc4_value(&data[..8], i));
    assert_eq!(g, bc4_value(&data[8..], i));
    let (_, _, b0, a0) = unpack_bgra(before[i]);
    assert_eq!((b, a), (b0, a0));
    kani::cover!(true);
}

/// Edge clipping: for image sizes w, h in {1,2,3,4,5,7,8,9} and every block position inside the
/// image, exactly the pixels of block (bx,by) that lie inside the image receive the block's
/// pixels (row r of the block from buffer[4r..]), everything else is untouched.  Sizes and block
/// positions are enumerated concretely (a symbolic size makes the row copies symbolic-length
/// memcpys: out of memory after 77 s); pixel contents are symbolic.
fn copy_block_case<const W: usize, const H: usize, const NP: usize>(buffer: &[u32; 16]) {
    let before: [u32; NP] = kani::any();
    let mut by = 0;
    while by * 4 < H {
        let mut bx = 0;
        while bx * 4 < W {
            let mut image = before;
            color::copy_block_buffer(bx, by, W, H, 4, 4, buffer, &mut image);
            let x: usize = kani::any();
            let y: usize = kani::any();
            kani::assume(x < W && y < H);
            if x / 4 == bx && y / 4 == by {
                assert_eq!(image[y * W + x], buffer[(y % 4) * 4 + (x % 4)]);
            } else {
                assert_eq!(image[y * W + x], before[y * W + x]);
            }
            bx += 1;
        }
        by += 1;
    }
}
macro_rules! copy_cases {
    ($name:ident, $h:expr) => {
        #[kani::proof]
        #[kani::unwind(6)]
        fn $name() {
            let buffer: [u32; 16] = kani::any();
            copy_block_case::<1, $h, { 1 * $h }>(&buffer);
            copy_block_case::<2, $h, { 2 * $h }>(&buffer);
            copy_block_case::<3, $h, { 3 * $h }>(&buffer);
            copy_block_case::<4, $h, { 4 * $h }>(&buffer);
            copy_block_case::<5, $h, { 5 * $h }>(&buffer);
            copy_block_case::<7, $h, { 7 * $h }>(&buffer);
            copy_block_case::<8, $h, { 8 * $h }>(&buffer);
            copy_block_case::<9, $h, { 9 * $h }>(&buffer);
            kani::cover!(true);
        }
    };
}
copy_cases!(c13_copy_block_h1, 1);
copy_cases!(c13_copy_block_h3, 3);
copy_cases!(c13_copy_block_h4, 4);
copy_cases!(c13_copy_block_h5, 5);
copy_cases!(c13_copy_block_h8, 8);
copy_cases!(c13_copy_block_h9, 9);

// whole images: concrete size, symbolic data, symbolic pixel
fn image_bc1<const W: usize, const H: usize, const NB: usize, const NP: usize>() {
    let data: [u8; NB] = kani::any();
    let mut image = [0u32; NP];
    assert!(decode_bc1(&data, W, H, &mut image).is_ok());
    let x: usize = kani::any();
    let y: usize = kani::any();
    kani::assume(x < W && y < H);
    let blocks_x = (W + 3) / 4;
    let blk = (y / 4) * blocks_x + x / 4;
    let (r, g, b, a) = unpack_bgra(image[y * W + x]);
    let (er, eg, eb, ea) = bc1_pixel(&data[8 * blk..], (y % 4) * 4 + x % 4);
    assert_eq!((r, g, b), (er, eg, eb));
    if let Some(ea) = ea { assert_eq!(a, ea); }
    kani::cover!(true);
}
macro_rules! img_bc1 {
    ($name:ident, $w:expr, $h:expr) => {
        #[kani::proof]
        #[kani::unwind(18)]
        fn $name() { image_bc1::<$w, $h, { (($w + 3) / 4) * (($h + 3) / 4) * 8 }, { $w * $h }>(); }
    };
}
img_bc1!(c13_image_bc1_1x1, 1, 1);
img_bc1!(c13_image_bc1_4x4, 4, 4);
img_bc1!(c13_image_bc1_5x5, 5, 5);
img_bc1!(c13_image_bc1_6x4, 6, 4);
img_bc1!(c13_image_bc1_3x7, 3, 7);
img_bc1!(c13_image_bc1_8x8, 8, 8);
img_bc1!(c13_image_bc1_9x2, 9, 2);
// one more size chosen by VERIF_SEED (gen/params.rs)
#[kani::proof]
#[kani::unwind(18)]
fn c13_image_bc1_seeded_size() {
    use crate::verif_support::params::{IMG_H as H, IMG_W as W};
    image_bc1::<W, H, { ((W + 3) / 4) * ((H + 3) / 4) * 8 }, { W * H }>();
}

fn image_bc3<const W: usize, const H: usize, const NB: usize, const NP: usize>() {
    let data: [u8; NB] = kani::any();
    let mut image = [0u32; NP];
    assert!(decode_bc3(&data, W, H, &mut image).is_ok());
    let x: usize = kani::any();
    let y: usize = kani::any();
    kani::assume(x < W && y < H);
    let blocks_x = (W + 3) / 4;
    let blk = (y / 4) * blocks_x + x / 4;
    let i = (y % 4) * 4 + x % 4;
    let (r, g, b, a) = unpack_bgra(image[y * W + x]);
    let (er, eg, eb, _) = bc1_pixel(&data[16 * blk + 8..], i);
    assert_eq!((r, g, b), (er, eg, eb));
    assert_eq!(a, bc4_value(&data[16 * blk..], i));
    kani::cover!(true);
}
fn image_bc5<const W: usize, const H: usize, const NB: usize, const NP: usize>() {
    let data: [u8; NB] = kani::any();
    let mut image = [0u32; NP];
    assert!(decode_bc5(&data, W, H, &mut image).is_ok());
    let x: usize = kani::any();
    let y: usize = kani::any();
    kani::assume(x < W && y < H);
    let blocks_x = (W + 3) / 4;
    let blk = (y / 4) * blocks_x + x / 4;
    let i = (y % 4) * 4 + x % 4;
    let (r, g, b, a) = unpack_bgra(image[y * W + x]);
    assert_eq!(r, bc4_value(&data[16 * blk..], i));
    assert_eq!(g, bc4_value(&data[16 * blk + 8..], i));
    // "BC5 two-channel blocks in red and green with opaque alpha"
    assert_eq!(a, 255);
    assert_eq!(b, 0);
    kani::cover!(true);
}
macro_rules! img16 {
    ($name:ident, $f:ident, $w:expr, $h:expr) => {
        #[kani::proof]
        #[kani::unwind(18)]
        fn $name() { $f::<$w, $h, { (($w + 3) / 4) * (($h + 3) / 4) * 16 }, { $w * $h }>(); }
    };
}
img16!(c13_image_bc3_4x4, image_bc3, 4, 4);
img16!(c13_image_bc3_5x3, image_bc3, 5, 3);
img16!(c13_image_bc3_6x6, image_bc3, 6, 6);
img16!(c13_image_bc5_4x4, image_bc5, 4, 4);
img16!(c13_image_bc5_5x3, image_bc5, 5, 3);
img16!(c13_image_bc5_6x6, image_bc5, 6, 6);

/// too little data / too small image buffer are rejected, never read out of bounds
#[kani::proof]
#[kani::unwind(18)]
fn c13_image_short_data_rejected() {
    let data: [u8; 15] = kani::any();
    let mut image = [0u32; 20];
    assert!(decode_bc1(&data, 5, 4, &mut image).is_err());
    assert!(decode_bc3(&data, 4, 4, &mut image).is_err());
    let data2: [u8; 16] = kani::any();
    let mut small = [0u32; 15];
    assert!(decode_bc5(&data2, 4, 4, &mut small).is_err());
    kani::cover!(true);
}

#[kani::proof]
#[kani::unwind(18)]
fn c13_pipeline_witness() {
    let data: [u8; 8] = kani::any();
    let mut out = [0u32; 16];
    decode_bc1_block(&data, &mut out);
    assert!(false);
}
