#![allow(static_mut_refs, unused_imports, dead_code, unused_unsafe)]
// Kani harnesses for src/blowfish/mod.rs (child module: sees Blowfish{p,s}, f, encrypt_pair, ...).
use super::*;
use crate::verif_support::gen_pi;

// ---------------------------------------------------------------------------------------------
// Abstract F: every call returns a fresh nondeterministic word, constrained only to be a
// *function* of its argument (hand Ackermannisation over the call log).  A law proved with this
// stub holds for every F, in particular for the real S-box based one (c11_f_is_spec).
// ---------------------------------------------------------------------------------------------
const LOG: usize = 64;
static mut F_IN: [u32; LOG] = [0; LOG];
static mut F_OUT: [u32; LOG] = [0; LOG];
static mut F_N: usize = 0; // always concrete: every call appends
fn abstract_f(_bf: &Blowfish, x: u32) -> u32 {
    unsafe {
        let y: u32 = kani::any();
        let mut i = 0;
        while i < F_N {
            kani::assume(F_IN[i] != x || F_OUT[i] == y);
            i += 1;
        }
        F_IN[F_N] = x;
        F_OUT[F_N] = y;
        F_N += 1;
        y
    }
}

/// Schneier's description: 16 rounds of (xl ^= P[i]; xr ^= F(xl); swap), undo last swap,
/// xr ^= P[16]; xl ^= P[17].
fn ref_encipher(bf: &Blowfish, mut xl: u32, mut xr: u32) -> (u32, u32) {
    let mut i = 0;
    while i < 16 {
        xl ^= bf.p[i];
        xr ^= bf.f(xl);
        core::mem::swap(&mut xl, &mut xr);
        i += 1;
    }
    core::mem::swap(&mut xl, &mut xr);
    xr ^= bf.p[16];
    xl ^= bf.p[17];
    (xl, xr)
}

/// E1: F(x) = ((S0[x>>24] + S1[x>>16 & ff]) ^ S2[x>>8 & ff]) + S3[x & ff] for every S and x.
#[kani::proof]
fn c11_f_is_spec() {
    let bf = Blowfish { p: [0; 18], s: kani::any() };
    let x: u32 = kani::any();
    let b = x.to_be_bytes();
    let want = ((bf.s[0][b[0] as usize].wrapping_add(bf.s[1][b[1] as usize])) ^ bf.s[2][b[2] as usize])
        .wrapping_add(bf.s[3][b[3] as usize]);
    assert_eq!(bf.f(x), want);
    kani::cover!(true);
}

/// E2: encrypt_pair == 16-round reference for every P, every F, every block.
#[kani::proof]
#[kani::unwind(66)]
#[kani::stub(Blowfish::f, abstract_f)]
fn c11_encrypt_pair_is_reference() {
    let bf = Blowfish { p: kani::any(), s: [[0; 256]; 4] };
    let l: u32 = kani::any();
    let r: u32 = kani::any();
    let got = bf.encrypt_pair(l, r);
    let want = ref_encipher(&bf, l, r);
    assert_eq!(got, want);
    kani::cover!(true);
}

/// E3: decrypt_pair inverts encrypt_pair (and vice versa) for every P, every F, every block.
#[kani::proof]
#[kani::unwind(66)]
#[kani::stub(Blowfish::f, abstract_f)]
fn c11_decrypt_inverts_encrypt() {
    let bf = Blowfish { p: kani::any(), s: [[0; 256]; 4] };
    let l: u32 = kani::any();
    let r: u32 = kani::any();
    let (cl, cr) = bf.encrypt_pair(l, r);
    let (dl, dr) = bf.decrypt_pair(cl, cr);
    assert_eq!((dl, dr), (l, r));
    kani::cover!(true);
}

#[kani::proof]
#[kani::unwind(66)]
#[kani::stub(Blowfish::f, abstract_f)]
fn c11_encrypt_inverts_decrypt() {
    let bf = Blowfish { p: kani::any(), s: [[0; 256]; 4] };
    let l: u32 = kani::any();
    let r: u32 = kani::any();
    let (cl, cr) = bf.decrypt_pair(l, r);
    let (dl, dr) = bf.encrypt_pair(cl, cr);
    assert_eq!((dl, dr), (l, r));
    kani::cover!(true);
}

// ---------------------------------------------------------------------------------------------
// E4: key schedule.  encrypt_pair is replaced by a recorder that returns fresh nondeterministic
// pairs; the harness checks the *structure* of Blowfish::new for every key:
//   P[i] ^= i-th big-endian word of the key bytes cycled with period 8, before the first call;
//   exactly 9 + 512 calls, the first on (0,0), each later one on the previous output;
//   outputs stored to P[0..18] then S[0..4][0..256], in order, and never overwritten afterwards.
// ---------------------------------------------------------------------------------------------
const CALLS: usize = 521;
static mut KS_N: usize = 0;
static mut KS_LAST: (u32, u32) = (0, 0);
static mut KS_P_AT_FIRST: [u32; 18] = [0; 18];
static mut KS_S_AT_FIRST_OK: bool = false;
static mut KS_CHAIN_OK: bool = true;
static mut KS_OUTS: [(u32, u32); CALLS] = [(0, 0); CALLS];
fn rec_encrypt_pair(bf: &Blowfish, l: u32, r: u32) -> (u32, u32) {
    unsafe {
        if KS_N == 0 {
            KS_P_AT_FIRST = bf.p;
            if (l, r) != (0, 0) {
                KS_CHAIN_OK = false;
            }
        } else if (l, r) != KS_LAST {
            KS_CHAIN_OK = false;
        }
        let out: (u32, u32) = (kani::any(), kani::any());
        assert!(KS_N < CALLS);
        KS_OUTS[KS_N] = out;
        KS_LAST = out;
        KS_N += 1;
        out
    }
}

fn key_schedule_structure(key: &[u8]) {
    let bf = Blowfish::new(key);
    unsafe {
        assert!(KS_CHAIN_OK);
        assert_eq!(KS_N, CALLS);
        let mut i = 0;
        while i < 18 {
            let w = u32::from_be_bytes([key[(4 * i) % 8], key[(4 * i + 1) % 8], key[(4 * i + 2) % 8], key[(4 * i + 3) % 8]]);
            assert_eq!(KS_P_AT_FIRST[i], gen_pi::REF_P[i] ^ w);
            i += 1;
        }
        let mut k = 0;
        while k < 9 {
            assert_eq!((bf.p[2 * k], bf.p[2 * k + 1]), KS_OUTS[k]);
            k += 1;
        }
        let mut b = 0;
        while b < 4 {
            let mut j = 0;
            while j < 128 {
                assert_eq!((bf.s[b][2 * j], bf.s[b][2 * j + 1]), KS_OUTS[9 + b * 128 + j]);
                j += 1;
            }
            b += 1;
        }
    }
    // no kani::cover! here: the harness has no assumptions (see registry no_cover)
    core::mem::forget(bf);
}

#[kani::proof]
#[kani::unwind(130)]
#[kani::stub(Blowfish::encrypt_pair, rec_encrypt_pair)]
fn c11_key_schedule_8() {
    let key: [u8; 8] = kani::any();
    key_schedule_structure(&key);
}

/// longer keys: only the first 8 bytes are significant (the statement says so)
#[kani::proof]
#[kani::unwind(130)]
#[kani::stub(Blowfish::encrypt_pair, rec_encrypt_pair)]
fn c11_key_schedule_16() {
    let key: [u8; 16] = kani::any();
    key_schedule_structure(&key);
}

#[kani::proof]
#[kani::unwind(130)]
#[kani::stub(Blowfish::encrypt_pair, rec_encrypt_pair)]
fn c11_key_schedule_56() {
    let key: [u8; 56] = kani::any();
    key_schedule_structure(&key);
}

// ---------------------------------------------------------------------------------------------
// E5: encrypt / decrypt framing: zero padding to a multiple of 8, little-endian word packing,
// block-by-block (ECB) use of encrypt_pair / decrypt_pair.  The pair functions are abstract:
// encrypt_pair = an arbitrary injective function E, decrypt_pair = its inverse on E's range
// (justified by E2/E3), arbitrary elsewhere.
// ---------------------------------------------------------------------------------------------
const MAXB: usize = 4;
static mut E_IN: [(u32, u32); MAXB] = [(0, 0); MAXB];
static mut E_OUT: [(u32, u32); MAXB] = [(0, 0); MAXB];
static mut E_N: usize = 0;
fn abstract_encrypt_pair(_bf: &Blowfish, l: u32, r: u32) -> (u32, u32) {
    unsafe {
        let out: (u32, u32) = (kani::any(), kani::any());
        let mut i = 0;
        while i < E_N {
            // functional and injective
            kani::assume((E_IN[i] == (l, r)) == (E_OUT[i] == out));
            i += 1;
        }
        assert!(E_N < MAXB);
        E_IN[E_N] = (l, r);
        E_OUT[E_N] = out;
        E_N += 1;
        out
    }
}
static mut D_N: usize = 0;
static mut D_IN: [(u32, u32); MAXB] = [(0, 0); MAXB];
fn abstract_decrypt_pair(_bf: &Blowfish, l: u32, r: u32) -> (u32, u32) {
    unsafe {
        assert!(D_N < MAXB);
        D_IN[D_N] = (l, r);
        D_N += 1;
        let mut i = 0;
        while i < E_N {
            if E_OUT[i] == (l, r) {
                return E_IN[i];
            }
            i += 1;
        }
        (kani::any(), kani::any())
    }
}

fn padded_byte(msg: &[u8], i: usize) -> u8 {
    if i < msg.len() { msg[i] } else { 0 }
}

fn encrypt_framing<const N: usize>() {
    let bf = Blowfish { p: [0; 18], s: [[0; 256]; 4] };
    let msg: [u8; N] = kani::any();
    let ct = bf.encrypt(&msg).unwrap();
    let blocks = (N + 7) / 8;
    assert_eq!(ct.len(), blocks * 8);
    unsafe {
        assert_eq!(E_N, blocks);
        let mut k = 0;
        while k < blocks {
            let l = u32::from_le_bytes([padded_byte(&msg, 8 * k), padded_byte(&msg, 8 * k + 1), padded_byte(&msg, 8 * k + 2), padded_byte(&msg, 8 * k + 3)]);
            let r = u32::from_le_bytes([padded_byte(&msg, 8 * k + 4), padded_byte(&msg, 8 * k + 5), padded_byte(&msg, 8 * k + 6), padded_byte(&msg, 8 * k + 7)]);
            assert_eq!(E_IN[k], (l, r));
            let ol = E_OUT[k].0.to_le_bytes();
            let or = E_OUT[k].1.to_le_bytes();
            let mut b = 0;
            while b < 4 {
                assert_eq!(ct[8 * k + b], ol[b]);
                assert_eq!(ct[8 * k + 4 + b], or[b]);
                b += 1;
            }
            k += 1;
        }
    }
    // decryption of the ciphertext returns the padded message
    let pt = bf.decrypt(&ct).unwrap();
    assert_eq!(pt.len(), blocks * 8);
    let mut i = 0;
    while i < blocks * 8 {
        assert_eq!(pt[i], padded_byte(&msg, i));
        i += 1;
    }
    kani::cover!(true);
}

macro_rules! framing {
    ($name:ident, $n:expr) => {
        #[kani::proof]
        #[kani::unwind(34)]
        #[kani::stub(Blowfish::encrypt_pair, abstract_encrypt_pair)]
        #[kani::stub(Blowfish::decrypt_pair, abstract_decrypt_pair)]
        fn $name() {
            encrypt_framing::<$n>();
        }
    };
}
framing!(c11_framing_len0, 0);
framing!(c11_framing_len1, 1);
framing!(c11_framing_len7, 7);
framing!(c11_framing_len8, 8);
framing!(c11_framing_len9, 9);
framing!(c11_framing_len13, 13);
framing!(c11_framing_len16, 16);
framing!(c11_framing_len17, 17);
framing!(c11_framing_len24, 24);

// ---------------------------------------------------------------------------------------------
// E6: tables are the hexadecimal digits of pi (reference generated at check time by
// gen_tables.py with Machin's formula on big integers — independent of the repository).
// ---------------------------------------------------------------------------------------------
#[kani::proof]
#[kani::unwind(4)]
fn c11_tables_are_pi() {
    let i: usize = kani::any();
    kani::assume(i < 18);
    assert_eq!(constants::BLOWFISH_P[i], gen_pi::REF_P[i]);
    let b: usize = kani::any();
    let j: usize = kani::any();
    kani::assume(b < 4 && j < 256);
    assert_eq!(constants::BLOWFISH_S[b][j], gen_pi::REF_S[b][j]);
    kani::cover!(true);
}

/// `new` starts from the pi tables (guards against a schedule that starts from other constants):
/// with the recorder stub, S is untouched until the 10th call.
/// Published vector (Eric Young's set): key 00..00, plaintext 00..00 -> 4EF99745 6198DD78;
/// run concretely through new/encrypt (little-endian word packing as the statement says).
#[kani::proof]
#[kani::unwind(130)]
fn c11_published_vector_zero_key() {
    let bf = Blowfish::new(&[0u8; 8]);
    let ct = bf.encrypt(&[0u8; 8]).unwrap();
    let l = u32::from_le_bytes([ct[0], ct[1], ct[2], ct[3]]);
    let r = u32::from_le_bytes([ct[4], ct[5], ct[6], ct[7]]);
    assert_eq!((l, r), (0x4EF99745, 0x6198DD78));
    core::mem::forget(bf);
}

#[kani::proof]
fn c11_pipeline_witness() {
    let bf = Blowfish { p: kani::any(), s: [[0; 256]; 4] };
    let x: u32 = kani::any();
    let _ = bf.f(x);
    assert!(false);
}
