#![allow(static_mut_refs, unused_imports, dead_code, unused_unsafe)]
// Kani harnesses for src/common_file_operations.rs
use super::*;
use binrw::BinRead;
use std::io::Cursor;

/// Half1 / Half2 / Half3: component i is the half whose bits are the i-th stored little-endian u16
#[kani::proof]
#[kani::unwind(8)]
fn c14_half_tuples_map() {
    let d: [u16; 3] = kani::any();
    let h1 = read_half1([d[0]]);
    assert_eq!(h1.value.to_bits(), d[0]);
    let h2 = read_half2([d[0], d[1]]);
    assert_eq!(h2.x.to_bits(), d[0]);
    assert_eq!(h2.y.to_bits(), d[1]);
    let h3 = read_half3(d);
    assert_eq!(h3.r.to_bits(), d[0]);
    assert_eq!(h3.g.to_bits(), d[1]);
    assert_eq!(h3.b.to_bits(), d[2]);
    kani::cover!(true);
}

/// the same through the real BinRead impls (what the colour-table rows use)
#[kani::proof]
#[kani::unwind(8)]
fn c14_half_tuples_binread() {
    let b: [u8; 6] = kani::any();
    let w = |i: usize| u16::from_le_bytes([b[2 * i], b[2 * i + 1]]);
    let mut c = Cursor::new(&b[..]);
    let h3 = Half3::read_le(&mut c).unwrap();
    assert_eq!((h3.r.to_bits(), h3.g.to_bits(), h3.b.to_bits()), (w(0), w(1), w(2)));
    assert_eq!(c.position(), 6);
    let mut c = Cursor::new(&b[..]);
    let h2 = Half2::read_le(&mut c).unwrap();
    assert_eq!((h2.x.to_bits(), h2.y.to_bits()), (w(0), w(1)));
    assert_eq!(c.position(), 4);
    let mut c = Cursor::new(&b[..]);
    let h1 = Half1::read_le(&mut c).unwrap();
    assert_eq!(h1.value.to_bits(), w(0));
    assert_eq!(c.position(), 2);
    kani::cover!(true);
}

/// bool helpers
#[kani::proof]
fn c14_bool_helpers() {
    let x: u8 = kani::any();
    assert_eq!(read_bool_from::<u8>(x), x == 1);
    let y: u16 = kani::any();
    assert_eq!(read_bool_from::<u16>(y), y == 1);
    let b: bool = kani::any();
    assert_eq!(write_bool_as::<u8>(&b), if b { 1 } else { 0 });
    assert_eq!(read_bool_from::<u8>(write_bool_as::<u8>(&b)), b);
    kani::cover!(true);
}

#[kani::proof]
fn c14c_pipeline_witness() {
    let d: [u16; 1] = kani::any();
    let _ = read_half1(d);
    assert!(false);
}

// ------------------------------------------------------------------------------------- C17
use crate::verif_support::refs::naive_memchr;

/// read_string on ASCII bytes: never panics, returns the bytes with leading/trailing NULs removed
#[kani::proof]
#[kani::unwind(8)]
fn c17_read_string_ascii() {
    let b: [u8; 3] = kani::any();
    kani::assume(b[0] < 128 && b[1] < 128 && b[2] < 128);
    kani::assume(b[0] != 0 && b[1] != 0); // text then optional terminator
    let s = read_string(b.to_vec());
    let want = if b[2] == 0 { 2 } else { 3 };
    assert_eq!(s.len(), want);
    assert_eq!(s.as_bytes()[0], b[0]);
    kani::cover!(b[2] == 0);
    core::mem::forget(s);
}

/// ... and on arbitrary bytes (invalid UTF-8 is what a damaged file holds) it must not panic
#[kani::proof]
#[kani::unwind(8)]
fn c17_read_string_any_bytes() {
    let b: [u8; 2] = kani::any();
    let s = read_string(b.to_vec());
    kani::cover!(b[0] >= 0x80);
    core::mem::forget(s);
}

/// write_string / get_string_len on text without NUL: bytes + terminator, length + 1
#[kani::proof]
#[kani::unwind(8)]
fn c17_write_string_plain() {
    let b: [u8; 3] = kani::any();
    kani::assume(b[0] < 128 && b[1] < 128 && b[2] < 128 && b[0] != 0 && b[1] != 0 && b[2] != 0);
    let s = unsafe { String::from_utf8_unchecked(b.to_vec()) };
    let w = write_string(&s);
    assert_eq!(w.len(), 4);
    assert!(w[0] == b[0] && w[1] == b[1] && w[2] == b[2] && w[3] == 0);
    assert_eq!(get_string_len(&s), 4);
    kani::cover!(true);
    core::mem::forget((s, w));
}

/// ... and text with an interior NUL (a user-supplied comment may hold one) must not panic
#[kani::proof]
#[kani::unwind(8)]
fn c17_write_string_interior_nul() {
    let b: [u8; 3] = kani::any();
    kani::assume(b[0] < 128 && b[1] < 128 && b[2] < 128);
    let s = unsafe { String::from_utf8_unchecked(b.to_vec()) };
    let w = write_string(&s);
    kani::cover!(b[1] == 0);
    core::mem::forget((s, w));
}
