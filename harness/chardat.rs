#![allow(static_mut_refs, unused_imports, dead_code, unused_unsafe)]
// Kani harnesses for src/chardat.rs
use super::*;
use crate::verif_support::refs::naive_memchr;

fn customize(race: Race, tribe: Tribe, gender: Gender, b: &[u8; 24]) -> CustomizeData {
    CustomizeData {
        race, gender, age: b[0], height: b[1], tribe, face: b[2], hair: b[3], enable_highlights: b[4] & 1 == 1,
        skin_tone: b[5], right_eye_color: b[6], hair_tone: b[7], highlights: b[8], facial_features: b[9],
        facial_feature_color: b[10], eyebrows: b[11], left_eye_color: b[12], eyes: b[13], nose: b[14], jaw: b[15],
        mouth: b[16], lips_tone_fur_pattern: b[17], race_feature_size: b[18], race_feature_type: b[19], bust: b[20],
        face_paint: b[21], face_paint_color: b[22], voice: b[23],
    }
}
/// the documented byte image of the appearance block (file offsets 0x10..=0x2A)
fn customize_image(race: u8, tribe: u8, gender: u8, b: &[u8; 24]) -> [u8; 27] {
    [race, gender, b[0], b[1], tribe, b[2], b[3], b[4] & 1, b[5], b[6], b[7], b[8], b[9], b[10], b[11], b[12], b[13], b[14],
     b[15], b[16], b[17], b[18], b[19], b[20], b[21], b[22], b[23]]
}
/// documented checksum: XOR of byte << (i mod 24) over file bytes 0x10..0xD4
/// (appearance block, one zero byte, little-endian timestamp, comment NUL-padded to 164 bytes)
fn ref_checksum(img: &[u8; 27], timestamp: u32, comment: &[u8]) -> u32 {
    let mut c: u32 = 0;
    let mut i = 0;
    while i < 27 { c ^= (img[i] as u32) << (i % 24); i += 1; }
    // index 27 is the zero pad byte
    let ts = timestamp.to_le_bytes();
    let mut k = 0;
    while k < 4 { c ^= (ts[k] as u32) << ((28 + k) % 24); k += 1; }
    k = 0;
    while k < comment.len() { c ^= (comment[k] as u32) << ((32 + k) % 24); k += 1; }
    c
}

fn checksum_case(race: Race, tribe: Tribe, gender: Gender, comment: &str) {
    let b: [u8; 24] = kani::any();
    let ts: u32 = kani::any();
    let cd = CharacterData { version: kani::any(), customize: customize(race, tribe, gender.clone(), &b), timestamp: ts, comment: comment.to_string() };
    let got = cd.calc_checksum();
    let img = customize_image(race as u8, tribe as u8, gender as u8, &b);
    assert_eq!(got, ref_checksum(&img, ts, comment.as_bytes()));
    kani::cover!(true);
    core::mem::forget(cd);
}
#[kani::proof]
#[kani::unwind(200)]
#[kani::stub(core::slice::memchr::memchr_aligned, naive_memchr)]
fn c09_checksum_empty_comment() { checksum_case(Race::Viera, Tribe::Rava, Gender::Female, ""); }
#[kani::proof]
#[kani::unwind(200)]
#[kani::stub(core::slice::memchr::memchr_aligned, naive_memchr)]
fn c09_checksum_ascii_comment() { checksum_case(Race::Hyur, Tribe::Highlander, Gender::Male, "Custom Comment Text!"); }
#[kani::proof]
#[kani::unwind(200)]
#[kani::stub(core::slice::memchr::memchr_aligned, naive_memchr)]
fn c09_checksum_non_ascii_comment() { checksum_case(Race::AuRa, Tribe::Xaela, Gender::Female, "Se\u{f1}orita \u{30d6}\u{30e9}\u{30f3}\u{30ab}"); }

/// written file: every field at its documented position, length 212, checksum over the
/// documented range, comment NUL-padded
fn layout_case(race: Race, tribe: Tribe, gender: Gender, comment: &str) {
    let b: [u8; 24] = kani::any();
    let ts: u32 = kani::any();
    let version: u32 = kani::any();
    let cd = CharacterData { version, customize: customize(race, tribe, gender.clone(), &b), timestamp: ts, comment: comment.to_string() };
    let mut out = [0xEEu8; 220];
    let mut w = Cursor::new(&mut out[..]);
    cd.write_le(&mut w).unwrap();
    assert_eq!(w.position(), 212);
    assert_eq!(u32::from_le_bytes([out[0], out[1], out[2], out[3]]), 0x2013FF14);
    assert_eq!(u32::from_le_bytes([out[4], out[5], out[6], out[7]]), version);
    let img = customize_image(race as u8, tribe as u8, gender as u8, &b);
    assert_eq!(u32::from_le_bytes([out[8], out[9], out[10], out[11]]), ref_checksum(&img, ts, comment.as_bytes()));
    let mut i = 0;
    while i < 27 { assert_eq!(out[0x10 + i], img[i]); i += 1; }
    assert_eq!(u32::from_le_bytes([out[0x2C], out[0x2D], out[0x2E], out[0x2F]]), ts);
    let cb = comment.as_bytes();
    i = 0;
    while i < 164 {
        assert_eq!(out[0x30 + i], if i < cb.len() { cb[i] } else { 0 });
        i += 1;
    }
    kani::cover!(true);
    core::mem::forget(cd);
}
#[kani::proof]
#[kani::unwind(200)]
#[kani::stub(core::slice::memchr::memchr_aligned, naive_memchr)]
fn c09_written_layout_ascii() { layout_case(Race::Lalafell, Tribe::Dunesfolk, Gender::Female, "Hi there"); }
#[kani::proof]
#[kani::unwind(200)]
#[kani::stub(core::slice::memchr::memchr_aligned, naive_memchr)]
fn c09_written_layout_empty() { layout_case(Race::Hrothgar, Tribe::Lost, Gender::Male, ""); }

/// parsing: each appearance field / timestamp comes from its documented position
#[kani::proof]
#[kani::unwind(200)]
#[kani::stub(core::str::validations::run_utf8_validation, crate::verif_support::refs::ascii_utf8_validation)]
fn c09_parse_field_positions() {
    let mut buf = [0u8; 212];
    let b: [u8; 24] = kani::any();
    let ts: u32 = kani::any();
    let version: u32 = kani::any();
    let junk: u32 = kani::any();
    let m = 0x2013FF14u32.to_le_bytes();
    let (v, j, t) = (version.to_le_bytes(), junk.to_le_bytes(), ts.to_le_bytes());
    let mut i = 0;
    while i < 4 { buf[i] = m[i]; buf[4 + i] = v[i]; buf[8 + i] = j[i]; buf[0x2C + i] = t[i]; i += 1; }
    let img = customize_image(Race::Miqote as u8, Tribe::Keeper as u8, Gender::Female as u8, &b);
    i = 0;
    while i < 27 { buf[0x10 + i] = img[i]; i += 1; }
    buf[0x30] = b'o';
    buf[0x31] = b'k';
    let cd = CharacterData::from_existing(&buf).unwrap();
    assert_eq!(cd.version, version);
    assert_eq!(cd.timestamp, ts);
    let c = &cd.customize;
    assert!(c.race == Race::Miqote && c.tribe == Tribe::Keeper && c.gender == Gender::Female);
    assert_eq!((c.age, c.height, c.face, c.hair, c.enable_highlights), (b[0], b[1], b[2], b[3], b[4] & 1 == 1));
    assert_eq!((c.skin_tone, c.right_eye_color, c.hair_tone, c.highlights, c.facial_features), (b[5], b[6], b[7], b[8], b[9]));
    assert_eq!((c.facial_feature_color, c.eyebrows, c.left_eye_color, c.eyes, c.nose, c.jaw), (b[10], b[11], b[12], b[13], b[14], b[15]));
    assert_eq!((c.mouth, c.lips_tone_fur_pattern, c.race_feature_size, c.race_feature_type, c.bust), (b[16], b[17], b[18], b[19], b[20]));
    assert_eq!((c.face_paint, c.face_paint_color, c.voice), (b[21], b[22], b[23]));
    assert!(cd.comment.as_bytes() == b"ok");
    kani::cover!(true);
    core::mem::forget(cd);
}

#[kani::proof]
#[kani::unwind(200)]
#[kani::stub(core::slice::memchr::memchr_aligned, naive_memchr)]
fn c09_pipeline_witness() {
    let b: [u8; 24] = kani::any();
    let cd = CharacterData { version: 1, customize: customize(Race::Hyur, Tribe::Midlander, Gender::Male, &b), timestamp: 0, comment: String::new() };
    let _ = cd.calc_checksum();
    core::mem::forget(cd);
    assert!(false);
}
