#![allow(static_mut_refs, unused_imports, dead_code, unused_unsafe)]
// Kani harnesses for src/cmp.rs
use super::*;

/// one racial scaling row: 14 little-endian floats, returned bit-exact, 56 bytes consumed
#[kani::proof]
#[kani::unwind(6)]
fn c16_scaling_row_exact() {
    let b: [u8; 56] = kani::any();
    let mut c = Cursor::new(&b[..]);
    let r = RacialScalingParameters::read(&mut c).unwrap();
    let f = |k: usize| u32::from_le_bytes([b[4 * k], b[4 * k + 1], b[4 * k + 2], b[4 * k + 3]]);
    assert_eq!(r.male_min_size.to_bits(), f(0));
    assert_eq!(r.male_max_size.to_bits(), f(1));
    assert_eq!(r.male_min_tail.to_bits(), f(2));
    assert_eq!(r.male_max_tail.to_bits(), f(3));
    assert_eq!(r.female_min_size.to_bits(), f(4));
    assert_eq!(r.female_max_size.to_bits(), f(5));
    assert_eq!(r.female_min_tail.to_bits(), f(6));
    assert_eq!(r.female_max_tail.to_bits(), f(7));
    assert_eq!(r.bust_min_x.to_bits(), f(8));
    assert_eq!(r.bust_min_y.to_bits(), f(9));
    assert_eq!(r.bust_min_z.to_bits(), f(10));
    assert_eq!(r.bust_max_x.to_bits(), f(11));
    assert_eq!(r.bust_max_y.to_bits(), f(12));
    assert_eq!(r.bust_max_z.to_bits(), f(13));
    assert_eq!(c.position(), 56);
    assert_eq!(std::mem::size_of::<RacialScalingParameters>(), 56);
    kani::cover!(true);
}

/// a buffer shorter than the fixed table offset is rejected (no entries), never a panic
#[kani::proof]
#[kani::unwind(6)]
fn c18_cmp_short_buffer() {
    let b: [u8; 12] = kani::any();
    let r = CMP::from_existing(&b);
    if let Some(c) = &r {
        assert!(c.parameters.is_empty());
    }
    kani::cover!(true);
    core::mem::forget(r);
}

#[kani::proof]
#[kani::unwind(6)]
fn c16c_pipeline_witness() {
    let b: [u8; 56] = kani::any();
    let mut c = Cursor::new(&b[..]);
    let _ = RacialScalingParameters::read(&mut c).unwrap();
    assert!(false);
}
