#![allow(static_mut_refs, unused_imports, dead_code, unused_unsafe)]
// Kani harnesses for src/compression.rs: inflate stream lifecycle.
// The three zlib entry points are environment: each returns an arbitrary status code; a ghost
// counter tracks streams that were initialised and not yet ended.
use super::*;

static mut LIVE: i32 = 0;
static mut INFLATE_CALLS: i32 = 0;
unsafe extern "C-unwind" fn m_init(_s: z_streamp, _w: core::ffi::c_int, _v: *const core::ffi::c_char, _sz: core::ffi::c_int) -> core::ffi::c_int {
    let r: i32 = kani::any();
    if r == Z_OK {
        unsafe { LIVE += 1; }
    }
    r
}
unsafe extern "C-unwind" fn m_inflate(_s: *mut z_stream, _f: i32) -> i32 {
    unsafe { INFLATE_CALLS += 1; }
    kani::any()
}
unsafe extern "C-unwind" fn m_end(_s: *mut z_stream) -> i32 {
    unsafe { LIVE -= 1; }
    Z_OK
}

/// every successfully initialised inflate stream is ended on every return path
#[kani::proof]
#[kani::unwind(4)]
#[kani::stub(libz_rs_sys::inflateInit2_, m_init)]
#[kani::stub(libz_rs_sys::inflate, m_inflate)]
#[kani::stub(libz_rs_sys::inflateEnd, m_end)]
fn c18_inflate_stream_released() {
    let mut i = [0u8; 4];
    let mut o = [0u8; 4];
    let ok = no_header_decompress(&mut i, &mut o);
    unsafe {
        assert_eq!(LIVE, 0);
        if ok { assert_eq!(INFLATE_CALLS, 1); }
    }
    kani::cover!(ok);
    kani::cover!(!ok);
}

#[kani::proof]
#[kani::unwind(4)]
#[kani::stub(libz_rs_sys::inflateInit2_, m_init)]
#[kani::stub(libz_rs_sys::inflate, m_inflate)]
#[kani::stub(libz_rs_sys::inflateEnd, m_end)]
fn c18c_pipeline_witness() {
    let mut i = [0u8; 4];
    let mut o = [0u8; 4];
    let _ = no_header_decompress(&mut i, &mut o);
    assert!(false);
}
