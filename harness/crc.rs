#![allow(static_mut_refs, unused_imports, dead_code, unused_unsafe)]
// Kani harnesses for src/crc.rs
use super::*;
use crate::verif_support::refs::{ref_crc_step, ref_crc_update};

/// JAMCRC = reflected CRC-32 (poly 0xEDB88320), init 0xFFFFFFFF, no final XOR.
fn jamcrc_eq_ref<const N: usize>() {
    let bytes: [u8; N] = kani::any();
    let j = Jamcrc::new();
    assert_eq!(j.checksum(&bytes), ref_crc_update(0xFFFF_FFFF, &bytes));
    kani::cover!(true);
}

#[kani::proof]
#[kani::unwind(258)]
fn c12_jamcrc_table() {
    // table[i] = CRC of the single byte i from register 0 (definition of the byte-wise table)
    let j = Jamcrc::new();
    let i: u8 = kani::any();
    assert_eq!(j.table[i as usize], ref_crc_step(0, i));
    kani::cover!(true);
}

#[kani::proof]
#[kani::unwind(258)]
fn c12_jamcrc_len0() { jamcrc_eq_ref::<0>(); }
#[kani::proof]
#[kani::unwind(258)]
fn c12_jamcrc_len1() { jamcrc_eq_ref::<1>(); }
#[kani::proof]
#[kani::unwind(258)]
fn c12_jamcrc_len2() { jamcrc_eq_ref::<2>(); }
#[kani::proof]
#[kani::unwind(258)]
fn c12_jamcrc_len3() { jamcrc_eq_ref::<3>(); }
#[kani::proof]
#[kani::unwind(258)]
fn c12_jamcrc_len4() { jamcrc_eq_ref::<4>(); }
#[kani::proof]
#[kani::unwind(258)]
fn c12_jamcrc_len5() { jamcrc_eq_ref::<5>(); }
#[kani::proof]
#[kani::unwind(258)]
fn c12_jamcrc_len6() { jamcrc_eq_ref::<6>(); }
#[kani::proof]
#[kani::unwind(258)]
fn c12_jamcrc_len8() { jamcrc_eq_ref::<8>(); }

/// One step of the table-driven loop from an ARBITRARY register value: together with the
/// initial value (len0) this is the inductive step for inputs of any length.
#[kani::proof]
#[kani::unwind(258)]
fn c12_jamcrc_step_inductive() {
    let j = Jamcrc::new();
    let c: u32 = kani::any();
    let b: u8 = kani::any();
    let got = j.table[((c ^ b as u32) & 0xFF) as usize] ^ (c >> 8);
    assert_eq!(got, ref_crc_step(c, b));
    kani::cover!(true);
}

/// Shader-key CRC (XivCrc32::from): reflected CRC-32, init 0, no final XOR.
fn xivcrc_eq_ref<const N: usize>() {
    let bytes: [u8; N] = kani::any();
    let x = XivCrc32::from(&bytes[..]);
    assert_eq!(x.crc, ref_crc_update(0, &bytes));
    assert_eq!(x.len, N);
    kani::cover!(true);
}
#[kani::proof]
#[kani::unwind(10)]
fn c12_xivcrc_len0() { xivcrc_eq_ref::<0>(); }
#[kani::proof]
#[kani::unwind(10)]
fn c12_xivcrc_len1() { xivcrc_eq_ref::<1>(); }
#[kani::proof]
#[kani::unwind(10)]
fn c12_xivcrc_len2() { xivcrc_eq_ref::<2>(); }
#[kani::proof]
#[kani::unwind(10)]
fn c12_xivcrc_len3() { xivcrc_eq_ref::<3>(); }

#[kani::proof]
#[kani::unwind(258)]
fn c12_pipeline_witness() {
    let j = Jamcrc::new();
    let b: [u8; 1] = kani::any();
    let _ = j.checksum(&b);
    assert!(false);
}
