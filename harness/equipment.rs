#![allow(static_mut_refs, unused_imports, dead_code, unused_unsafe)]
// Kani harnesses for src/equipment.rs
use super::*;

fn slot_from_index(i: u8) -> Slot {
    match i {
        0 => Slot::Head,
        1 => Slot::Hands,
        2 => Slot::Legs,
        3 => Slot::Feet,
        4 => Slot::Body,
        5 => Slot::Earring,
        6 => Slot::Neck,
        7 => Slot::Wrists,
        8 => Slot::RingLeft,
        _ => Slot::RingRight,
    }
}
fn any_slot() -> Slot {
    let i: u8 = kani::any();
    kani::assume(i < 10);
    slot_from_index(i)
}

/// the abbreviation read back from a file name is the slot it was built from
#[kani::proof]
#[kani::unwind(6)]
fn c15_slot_abbreviation_roundtrip() {
    let s = any_slot();
    let back = get_slot_from_abbreviation(get_slot_abbreviation(s.clone()));
    assert!(back == Some(s));
    kani::cover!(true);
}

/// distinct slots have distinct three-letter abbreviations (so paths differ when slots differ)
#[kani::proof]
#[kani::unwind(6)]
fn c15_slot_abbreviation_injective() {
    let a = any_slot();
    let b = any_slot();
    let sa = get_slot_abbreviation(a.clone()).as_bytes();
    let sb = get_slot_abbreviation(b.clone()).as_bytes();
    assert!(sa.len() == 3 && sb.len() == 3);
    if sa[0] == sb[0] && sa[1] == sb[1] && sa[2] == sb[2] {
        assert!(a == b);
    }
    kani::cover!(a != b);
}

/// the documented abbreviations
#[kani::proof]
#[kani::unwind(6)]
fn c15_slot_abbreviation_table() {
    let i: u8 = kani::any();
    kani::assume(i < 10);
    let want: &[u8; 3] = match i {
        0 => b"met", 1 => b"glv", 2 => b"dwn", 3 => b"sho", 4 => b"top",
        5 => b"ear", 6 => b"nek", 7 => b"wrs", 8 => b"ril", _ => b"rir",
    };
    let got = get_slot_abbreviation(slot_from_index(i)).as_bytes();
    assert!(got.len() == 3 && got[0] == want[0] && got[1] == want[1] && got[2] == want[2]);
    kani::cover!(true);
}

/// character category tables: path / abbreviation / prefix are pairwise distinct per category
#[kani::proof]
#[kani::unwind(6)]
fn c15_character_category_tables() {
    fn cat(i: u8) -> CharacterCategory {
        match i { 0 => CharacterCategory::Body, 1 => CharacterCategory::Hair, 2 => CharacterCategory::Face, 3 => CharacterCategory::Tail, _ => CharacterCategory::Ear }
    }
    let i: u8 = kani::any();
    let j: u8 = kani::any();
    kani::assume(i < 5 && j < 5 && i != j);
    let (pi, pj) = (get_character_category_prefix(cat(i)).as_bytes(), get_character_category_prefix(cat(j)).as_bytes());
    assert!(pi.len() == 1 && pj.len() == 1 && pi[0] != pj[0]);
    let (ai, aj) = (get_character_category_abbreviation(cat(i)).as_bytes(), get_character_category_abbreviation(cat(j)).as_bytes());
    assert!(ai.len() == 3 && aj.len() == 3);
    assert!(ai[0] != aj[0] || ai[1] != aj[1] || ai[2] != aj[2]);
    let (qi, qj) = (get_character_category_path(cat(i)).as_bytes(), get_character_category_path(cat(j)).as_bytes());
    assert!(qi.len() == 4 && qj.len() == 4);
    assert!(qi[0] != qj[0] || qi[1] != qj[1] || qi[2] != qj[2] || qi[3] != qj[3]);
    kani::cover!(true);
}

/// deconstruct reads id and slot from the fixed positions of a file name `cRRRReIIII_sss.mdl`.
/// The id digits are concrete per instance (`str::parse::<i32>` on four *symbolic* digits ran out
/// of memory after 190 s, and so did a symbolic slot: str slicing checks char boundaries on the
/// symbolic bytes); the race digits and the extension bytes are symbolic.
fn deconstruct_case(id_digits: [u8; 4], slot_idx: u8) {
    let r: [u8; 4] = kani::any();
    kani::assume(r[0] <= 9 && r[1] <= 9 && r[2] <= 9 && r[3] <= 9);
    let ext: [u8; 3] = kani::any();
    kani::assume(ext[0] < 128 && ext[1] < 128 && ext[2] < 128);
    let ab = get_slot_abbreviation(slot_from_index(slot_idx)).as_bytes();
    let raw: [u8; 18] = [
        b'c', b'0' + r[0], b'0' + r[1], b'0' + r[2], b'0' + r[3], b'e', id_digits[0], id_digits[1], id_digits[2], id_digits[3],
        b'_', ab[0], ab[1], ab[2], b'.', ext[0], ext[1], ext[2],
    ];
    let path = unsafe { core::str::from_utf8_unchecked(&raw) };
    let got = deconstruct_equipment_path(path);
    let id = (id_digits[0] - b'0') as i32 * 1000 + (id_digits[1] - b'0') as i32 * 100 + (id_digits[2] - b'0') as i32 * 10 + (id_digits[3] - b'0') as i32;
    match got {
        Some((gid, gslot)) => {
            assert_eq!(gid, id);
            assert!(gslot == slot_from_index(slot_idx));
        }
        None => panic!("valid file name not deconstructed"),
    }
    kani::cover!(true);
}
#[kani::proof]
#[kani::unwind(8)]
fn c15_deconstruct_id_6016() { deconstruct_case(*b"6016", 8); }
#[kani::proof]
#[kani::unwind(8)]
fn c15_deconstruct_id_0000() { deconstruct_case(*b"0000", 0); }
#[kani::proof]
#[kani::unwind(8)]
fn c15_deconstruct_id_9999() { deconstruct_case(*b"9999", 4); }
#[kani::proof]
#[kani::unwind(8)]
fn c15_deconstruct_id_0907() { deconstruct_case(*b"0907", 9); }

/// built equipment path: exact text, and reading back its file name returns (id, slot)
fn equipment_path_case(model_id: i32, slot_idx: u8) {
    let p = build_equipment_path(model_id, crate::race::Race::Lalafell, crate::race::Tribe::Dunesfolk, crate::race::Gender::Female, slot_from_index(slot_idx));
    let b = p.as_bytes();
    // chara/equipment/eIIII/model/c1201eIIII_sss.mdl
    assert_eq!(b.len(), 46);
    let dg = [b'0' + (model_id / 1000 % 10) as u8, b'0' + (model_id / 100 % 10) as u8, b'0' + (model_id / 10 % 10) as u8, b'0' + (model_id % 10) as u8];
    let ab = get_slot_abbreviation(slot_from_index(slot_idx)).as_bytes();
    let prefix = b"chara/equipment/e";
    let mut i = 0;
    while i < 17 { assert_eq!(b[i], prefix[i]); i += 1; }
    i = 0;
    while i < 4 { assert_eq!(b[17 + i], dg[i]); assert_eq!(b[34 + i], dg[i]); i += 1; }
    let mid = b"/model/c1201e";
    i = 0;
    while i < 13 { assert_eq!(b[21 + i], mid[i]); i += 1; }
    assert_eq!(b[38], b'_');
    assert_eq!((b[39], b[40], b[41]), (ab[0], ab[1], ab[2]));
    assert_eq!((b[42], b[43], b[44], b[45]), (b'.', b'm', b'd', b'l'));
    let back = deconstruct_equipment_path(&p[28..]);
    assert!(back == Some((model_id, slot_from_index(slot_idx))));
    kani::cover!(true);
    core::mem::forget(p);
}
#[kani::proof]
#[kani::unwind(12)]
fn c15_equipment_path_concrete_6016_ril() { equipment_path_case(6016, 8); }
#[kani::proof]
#[kani::unwind(12)]
fn c15_equipment_path_concrete_0038_rir() { equipment_path_case(38, 9); }
#[kani::proof]
#[kani::unwind(12)]
fn c15_equipment_path_symbolic_id() {
    let id: i32 = kani::any();
    kani::assume(id >= 0 && id <= 9999);
    equipment_path_case(id, 4);
}

#[kani::proof]
fn c15e_pipeline_witness() {
    let s = any_slot();
    let _ = get_slot_abbreviation(s);
    assert!(false);
}

// =================================================================================================
// path builders, decided for symbolic ids / races / slots through the format! engine model
// (registry.FORMAT_MODEL): exact text of every built path
// =================================================================================================
use crate::race::{Gender, Race, Tribe, get_race_id, build_skeleton_path};

fn d4(v: i32) -> [u8; 4] {
    [b'0' + (v / 1000 % 10) as u8, b'0' + (v / 100 % 10) as u8, b'0' + (v / 10 % 10) as u8, b'0' + (v % 10) as u8]
}
/// a valid (race, tribe, gender) triple and its race code
fn any_valid_triple() -> (Race, Tribe, Gender, i32) {
    let r: u8 = kani::any();
    kani::assume(r >= 1 && r <= 8);
    let second: bool = kani::any();
    let g: u8 = kani::any();
    kani::assume(g <= 1);
    let t = 2 * r - 1 + second as u8;
    let code = get_race_id(Race::try_from(r).unwrap(), Tribe::try_from(t).unwrap(), Gender::try_from(g).unwrap()).unwrap();
    (Race::try_from(r).unwrap(), Tribe::try_from(t).unwrap(), Gender::try_from(g).unwrap(), code)
}
struct Expect { buf: [u8; 96], n: usize }
impl Expect {
    fn new() -> Self { Expect { buf: [0; 96], n: 0 } }
    fn s(&mut self, t: &[u8]) { let mut i = 0; while i < t.len() { self.buf[self.n] = t[i]; self.n += 1; i += 1; } }
    fn check(&self, got: &str) {
        let g = got.as_bytes();
        assert_eq!(g.len(), self.n);
        let mut i = 0;
        while i < 96 { if i < self.n { assert_eq!(g[i], self.buf[i]); } i += 1; }
    }
}

/// chara/equipment/eIIII/model/cRRRReIIII_sss.mdl for every id 0..9999, valid triple, slot
#[kani::proof]
#[kani::unwind(100)]
fn c15_equipment_path_all() {
    let id: i32 = kani::any();
    kani::assume(id >= 0 && id <= 9999);
    let (race, tribe, gender, code) = any_valid_triple();
    let slot_i: u8 = kani::any();
    kani::assume(slot_i < 10);
    let p = build_equipment_path(id, race, tribe, gender, slot_from_index(slot_i));
    let mut e = Expect::new();
    e.s(b"chara/equipment/e"); e.s(&d4(id)); e.s(b"/model/c"); e.s(&d4(code)); e.s(b"e"); e.s(&d4(id)); e.s(b"_");
    e.s(get_slot_abbreviation(slot_from_index(slot_i)).as_bytes()); e.s(b".mdl");
    e.check(&p);
    // the file name starts at byte 28: deconstruct reads id from bytes 6..10 and the slot from 11..14 of it
    assert_eq!(p.as_bytes()[28], b'c');
    kani::cover!(true);
    core::mem::forget(p);
}

/// chara/human/cRRRR/obj/<dir>/<p>VVVV/model/cRRRR<p>VVVV_<abr>.mdl
#[kani::proof]
#[kani::unwind(100)]
fn c15_character_path_all() {
    let ver: i32 = kani::any();
    kani::assume(ver >= 0 && ver <= 9999);
    let (race, tribe, gender, code) = any_valid_triple();
    let ci: u8 = kani::any();
    kani::assume(ci < 5);
    let cat = match ci { 0 => CharacterCategory::Body, 1 => CharacterCategory::Hair, 2 => CharacterCategory::Face, 3 => CharacterCategory::Tail, _ => CharacterCategory::Ear };
    let (dir, pre, abr): (&[u8], &[u8], &[u8]) = match ci { 0 => (b"body", b"b", b"top"), 1 => (b"hair", b"h", b"hir"), 2 => (b"face", b"f", b"fac"), 3 => (b"tail", b"t", b"til"), _ => (b"zear", b"z", b"zer") };
    let p = build_character_path(cat, ver, race, tribe, gender);
    let mut e = Expect::new();
    e.s(b"chara/human/c"); e.s(&d4(code)); e.s(b"/obj/"); e.s(dir); e.s(b"/"); e.s(pre); e.s(&d4(ver)); e.s(b"/model/c"); e.s(&d4(code));
    e.s(pre); e.s(&d4(ver)); e.s(b"_"); e.s(abr); e.s(b".mdl");
    e.check(&p);
    kani::cover!(true);
    core::mem::forget(p);
}

/// chara/human/cRRRR/skeleton/base/b0001/skl_cRRRRb0001.sklb
#[kani::proof]
#[kani::unwind(100)]
fn c15_skeleton_path_all() {
    let (race, tribe, gender, code) = any_valid_triple();
    let p = build_skeleton_path(race, tribe, gender);
    let mut e = Expect::new();
    e.s(b"chara/human/c"); e.s(&d4(code)); e.s(b"/skeleton/base/b0001/skl_c"); e.s(&d4(code)); e.s(b"b0001.sklb");
    e.check(&p);
    kani::cover!(true);
    core::mem::forget(p);
}

/// the six material path builders (material name concrete, every code 0..9999)
#[kani::proof]
#[kani::unwind(100)]
fn c15_material_paths_all() {
    let a: i32 = kani::any();
    let b: i32 = kani::any();
    kani::assume(a >= 0 && a <= 9999 && b >= 0 && b <= 9999);
    let name = "/mt_c0101e6016_top_a.mtrl";
    let which: u8 = kani::any();
    kani::assume(which < 6);
    let mut e = Expect::new();
    let p = match which {
        0 => { e.s(b"chara/equipment/e"); e.s(&d4(a)); e.s(b"/material/v"); e.s(&d4(b)); build_gear_material_path(a, b, name) }
        1 => { e.s(b"chara/human/c"); e.s(&d4(a)); e.s(b"/obj/body/b"); e.s(&d4(b)); e.s(b"/material/v0001"); build_skin_material_path(a, b, name) }
        2 => { e.s(b"chara/human/c"); e.s(&d4(a)); e.s(b"/obj/face/f"); e.s(&d4(b)); e.s(b"/material"); build_face_material_path(a, b, name) }
        3 => { e.s(b"chara/human/c"); e.s(&d4(a)); e.s(b"/obj/hair/h"); e.s(&d4(b)); e.s(b"/material/v0001"); build_hair_material_path(a, b, name) }
        4 => { e.s(b"chara/human/c"); e.s(&d4(a)); e.s(b"/obj/ear/e"); e.s(&d4(b)); e.s(b"/material/v0001"); build_ear_material_path(a, b, name) }
        _ => { e.s(b"chara/human/c"); e.s(&d4(a)); e.s(b"/obj/tail/t"); e.s(&d4(b)); e.s(b"/material/v0001"); build_tail_material_path(a, b, name) }
    };
    e.s(name.as_bytes());
    e.check(&p);
    kani::cover!(true);
    core::mem::forget(p);
}

/// the same reading for every slot on fully concrete file names (decided by constant propagation whatever string
/// searching the implementation uses; the symbolic variants above need fixed read positions to decide)
#[kani::proof]
#[kani::unwind(24)]
#[kani::stub(core::slice::memchr::memrchr, crate::verif_support::refs::naive_memrchr)]
#[kani::stub(core::slice::memchr::memchr_aligned, crate::verif_support::refs::naive_memchr)]
fn c15_deconstruct_concrete_all_slots() {
    let mut i = 0u8;
    while i < 10 {
        let ab = get_slot_abbreviation(slot_from_index(i)).as_bytes();
        let raw: [u8; 18] = [b'c', b'0', b'2', b'0', b'1', b'e', b'0', b'0', b'3', b'8', b'_', ab[0], ab[1], ab[2], b'.', b'm', b'd', b'l'];
        let path = unsafe { core::str::from_utf8_unchecked(&raw) };
        match deconstruct_equipment_path(path) {
            Some((id, slot)) => { assert_eq!(id, 38); assert!(slot == slot_from_index(i)); }
            None => panic!("valid file name not deconstructed"),
        }
        i += 1;
    }
    let x: u8 = kani::any();
    kani::cover!(x == 1);
}
