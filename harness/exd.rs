#![allow(static_mut_refs, unused_imports, dead_code, unused_unsafe)]
// Kani harnesses for src/exd.rs (child module: builds EXD/EXH values directly, calls read_row).
use super::*;
use crate::exh::*;

const ROW_AT: usize = 32; // where the row starts inside the data file (concrete)
const FIXED: usize = 16; // size of the fixed-size region (exh.header.data_offset)

fn exh_with(cols: Vec<ExcelColumnDefinition>, data_offset: u16) -> EXH {
    EXH {
        header: EXHHeader { version: 3, data_offset, column_count: cols.len() as u16, page_count: 0, language_count: 0, row_count: 0 },
        column_definitions: cols,
        pages: vec![],
        languages: vec![],
    }
}

/// data file image with one row (row_count 1) at ROW_AT whose fixed region is `fixed` followed by `heap`
fn one_row_exd(row_id: u32, fixed: &[u8; FIXED], heap: &[u8]) -> EXD {
    let mut data = vec![0u8; ROW_AT + 6 + FIXED + heap.len()];
    let size = ((FIXED + heap.len()) as u32).to_be_bytes();
    data[ROW_AT] = size[0];
    data[ROW_AT + 1] = size[1];
    data[ROW_AT + 2] = size[2];
    data[ROW_AT + 3] = size[3];
    data[ROW_AT + 4] = 0;
    data[ROW_AT + 5] = 1;
    let mut i = 0;
    while i < FIXED {
        data[ROW_AT + 6 + i] = fixed[i];
        i += 1;
    }
    i = 0;
    while i < heap.len() {
        data[ROW_AT + 6 + FIXED + i] = heap[i];
        i += 1;
    }
    EXD {
        header: EXDHeader { version: 2, index_size: 8 },
        data_offsets: vec![ExcelDataOffset { row_id, offset: ROW_AT as u32 }],
        data,
    }
}

fn be(fixed: &[u8; FIXED], off: usize, width: usize) -> u64 {
    let mut v: u64 = 0;
    let mut i = 0;
    while i < width {
        v = (v << 8) | fixed[off + i] as u64;
        i += 1;
    }
    v
}

/// one numeric / boolean column of type `t` at byte offset `off` of the fixed region
fn cell(t: ColumnDataType, off: usize) {
    let fixed: [u8; FIXED] = kani::any();
    let exd = one_row_exd(7, &fixed, &[]);
    let exh = exh_with(vec![ExcelColumnDefinition { data_type: t.clone(), offset: off as u16 }], FIXED as u16);
    let rows = exd.read_row(&exh, 7).unwrap();
    assert_eq!(rows.len(), 1);
    assert_eq!(rows[0].data.len(), 1);
    match (&rows[0].data[0], t) {
        (ColumnData::Bool(b), ColumnDataType::Bool) => {
            // stored booleans are 0 / 1; other byte values are left unconstrained
            if fixed[off] <= 1 { assert_eq!(*b, fixed[off] == 1); }
        }
        (ColumnData::Bool(b), ColumnDataType::PackedBool0) => assert_eq!(*b, fixed[off] & 0x01 != 0),
        (ColumnData::Bool(b), ColumnDataType::PackedBool1) => assert_eq!(*b, fixed[off] & 0x02 != 0),
        (ColumnData::Bool(b), ColumnDataType::PackedBool2) => assert_eq!(*b, fixed[off] & 0x04 != 0),
        (ColumnData::Bool(b), ColumnDataType::PackedBool3) => assert_eq!(*b, fixed[off] & 0x08 != 0),
        (ColumnData::Bool(b), ColumnDataType::PackedBool4) => assert_eq!(*b, fixed[off] & 0x10 != 0),
        (ColumnData::Bool(b), ColumnDataType::PackedBool5) => assert_eq!(*b, fixed[off] & 0x20 != 0),
        (ColumnData::Bool(b), ColumnDataType::PackedBool6) => assert_eq!(*b, fixed[off] & 0x40 != 0),
        (ColumnData::Bool(b), ColumnDataType::PackedBool7) => assert_eq!(*b, fixed[off] & 0x80 != 0),
        (ColumnData::Int8(v), ColumnDataType::Int8) => assert_eq!(*v, be(&fixed, off, 1) as u8 as i8),
        (ColumnData::UInt8(v), ColumnDataType::UInt8) => assert_eq!(*v, be(&fixed, off, 1) as u8),
        (ColumnData::Int16(v), ColumnDataType::Int16) => assert_eq!(*v, be(&fixed, off, 2) as u16 as i16),
        (ColumnData::UInt16(v), ColumnDataType::UInt16) => assert_eq!(*v, be(&fixed, off, 2) as u16),
        (ColumnData::Int32(v), ColumnDataType::Int32) => assert_eq!(*v, be(&fixed, off, 4) as u32 as i32),
        (ColumnData::UInt32(v), ColumnDataType::UInt32) => assert_eq!(*v, be(&fixed, off, 4) as u32),
        (ColumnData::Float32(v), ColumnDataType::Float32) => assert_eq!(v.to_bits(), be(&fixed, off, 4) as u32),
        (ColumnData::Int64(v), ColumnDataType::Int64) => assert_eq!(*v, be(&fixed, off, 8) as i64),
        (ColumnData::UInt64(v), ColumnDataType::UInt64) => assert_eq!(*v, be(&fixed, off, 8)),
        _ => panic!("cell has the wrong variant for its column type"),
    }
    kani::cover!(true);
    core::mem::forget(rows);
    core::mem::forget(exd);
    core::mem::forget(exh);
}

macro_rules! cell_h {
    ($name:ident, $t:ident, $off:expr) => {
        #[kani::proof]
        #[kani::unwind(18)]
        fn $name() { cell(ColumnDataType::$t, $off); }
    };
}
// the last byte of the fixed region (offset FIXED - width) is the interesting boundary for the
// boolean types: a reader that consumes more than the stored byte runs past the row there
cell_h!(c05_cell_bool_at0, Bool, 0);
cell_h!(c05_cell_bool_at5, Bool, 5);
cell_h!(c05_cell_bool_at15, Bool, 15);
cell_h!(c05_cell_packed0_at1, PackedBool0, 1);
cell_h!(c05_cell_packed1_at2, PackedBool1, 2);
cell_h!(c05_cell_packed2_at0, PackedBool2, 0);
cell_h!(c05_cell_packed3_at5, PackedBool3, 5);
cell_h!(c05_cell_packed4_at15, PackedBool4, 15);
cell_h!(c05_cell_packed5_at7, PackedBool5, 7);
cell_h!(c05_cell_packed6_at3, PackedBool6, 3);
cell_h!(c05_cell_packed7_at14, PackedBool7, 14);
cell_h!(c05_cell_i8_at1, Int8, 1);
cell_h!(c05_cell_u8_at15, UInt8, 15);
cell_h!(c05_cell_i16_at2, Int16, 2);
cell_h!(c05_cell_u16_at5, UInt16, 5);
cell_h!(c05_cell_u16_at14, UInt16, 14);
cell_h!(c05_cell_i32_at0, Int32, 0);
cell_h!(c05_cell_u32_at5, UInt32, 5);
cell_h!(c05_cell_u32_at12, UInt32, 12);
cell_h!(c05_cell_f32_at1, Float32, 1);
cell_h!(c05_cell_f32_at8, Float32, 8);
cell_h!(c05_cell_i64_at0, Int64, 0);
cell_h!(c05_cell_u64_at5, UInt64, 5);
cell_h!(c05_cell_u64_at8, UInt64, 8);
// one more offset chosen by VERIF_SEED (gen/params.rs)
cell_h!(c05_cell_u32_seeded_offset, UInt32, { crate::verif_support::params::CELL_OFF });
cell_h!(c05_cell_packed5_seeded_offset, PackedBool5, { crate::verif_support::params::CELL_OFF });

/// several columns in one row: each cell is read at its own offset, in column order
#[kani::proof]
#[kani::unwind(18)]
fn c05_row_three_columns() {
    let fixed: [u8; FIXED] = kani::any();
    let exd = one_row_exd(7, &fixed, &[]);
    let exh = exh_with(
        vec![
            ExcelColumnDefinition { data_type: ColumnDataType::UInt16, offset: 6 },
            ExcelColumnDefinition { data_type: ColumnDataType::PackedBool2, offset: 9 },
            ExcelColumnDefinition { data_type: ColumnDataType::Int32, offset: 0 },
        ],
        FIXED as u16,
    );
    let rows = exd.read_row(&exh, 7).unwrap();
    assert_eq!(rows.len(), 1);
    assert_eq!(rows[0].data.len(), 3);
    match (&rows[0].data[0], &rows[0].data[1], &rows[0].data[2]) {
        (ColumnData::UInt16(a), ColumnData::Bool(b), ColumnData::Int32(c)) => {
            assert_eq!(*a, be(&fixed, 6, 2) as u16);
            assert_eq!(*b, fixed[9] & 4 != 0);
            assert_eq!(*c, be(&fixed, 0, 4) as u32 as i32);
        }
        _ => panic!("wrong variants"),
    }
    kani::cover!(true);
    core::mem::forget(rows);
    core::mem::forget(exd);
    core::mem::forget(exh);
}

/// string cell: u32 BE offset into the heap that starts right after the fixed region.
/// The text itself is concrete (pushing a *symbolic* byte into a `String` makes its length symbolic
/// and did not decide in 300 s); everything around it -- the other columns' bytes, the heap bytes
/// before the string and after its terminator -- is symbolic, so the harness decides, for every
/// such surrounding, that the cell is exactly the bytes between heap+offset and the next NUL.
fn string_cell<const L: usize>(text: &[u8; L], string_offset: usize, col_off: usize) {
    let mut fixed: [u8; FIXED] = kani::any();
    let so = (string_offset as u32).to_be_bytes();
    fixed[col_off] = so[0];
    fixed[col_off + 1] = so[1];
    fixed[col_off + 2] = so[2];
    fixed[col_off + 3] = so[3];
    let mut heap: [u8; 24] = kani::any();
    let mut i = 0;
    while i < L {
        heap[string_offset + i] = text[i];
        i += 1;
    }
    heap[string_offset + L] = 0;
    let exd = one_row_exd(7, &fixed, &heap);
    let exh = exh_with(vec![ExcelColumnDefinition { data_type: ColumnDataType::String, offset: col_off as u16 }], FIXED as u16);
    let rows = exd.read_row(&exh, 7).unwrap();
    match &rows[0].data[0] {
        ColumnData::String(s) => {
            let b = s.as_bytes();
            assert_eq!(b.len(), L);
            let mut k = 0;
            while k < L {
                assert_eq!(b[k], text[k]);
                k += 1;
            }
        }
        _ => panic!("wrong variant"),
    }
    kani::cover!(true);
    core::mem::forget(rows);
    core::mem::forget(exd);
    core::mem::forget(exh);
}
#[kani::proof]
#[kani::unwind(26)]
fn c05_string_empty_at0() { string_cell::<0>(b"", 0, 0); }
#[kani::proof]
#[kani::unwind(26)]
fn c05_string_len1_at3() { string_cell::<1>(b"Q", 3, 4); }
#[kani::proof]
#[kani::unwind(26)]
fn c05_string_len5_at2() { string_cell::<5>(b"a Z~!", 2, 12); }
#[kani::proof]
#[kani::unwind(26)]
fn c05_string_len12_at9() { string_cell::<12>(b"Hello, World", 9, 7); }

/// sub-rows: `count` records, each a 2-byte sub-row id followed by `data_offset` fixed bytes;
/// record i is decoded from  row + 6 + i*(data_offset+2) + 2.
fn subrows<const COUNT: usize, const DO: usize, const TOTAL: usize>() {
    let body: [u8; TOTAL] = kani::any(); // COUNT * (DO + 2) bytes
    let mut data = vec![0u8; ROW_AT + 6 + TOTAL];
    let size = (TOTAL as u32).to_be_bytes();
    data[ROW_AT] = size[0];
    data[ROW_AT + 1] = size[1];
    data[ROW_AT + 2] = size[2];
    data[ROW_AT + 3] = size[3];
    data[ROW_AT + 4] = (COUNT >> 8) as u8;
    data[ROW_AT + 5] = COUNT as u8;
    let mut i = 0;
    while i < TOTAL {
        data[ROW_AT + 6 + i] = body[i];
        i += 1;
    }
    let exd = EXD {
        header: EXDHeader { version: 2, index_size: 8 },
        data_offsets: vec![ExcelDataOffset { row_id: 9, offset: ROW_AT as u32 }],
        data,
    };
    let exh = exh_with(
        vec![
            ExcelColumnDefinition { data_type: ColumnDataType::UInt16, offset: (DO - 2) as u16 },
            ExcelColumnDefinition { data_type: ColumnDataType::UInt8, offset: 0 },
        ],
        DO as u16,
    );
    let rows = exd.read_row(&exh, 9).unwrap();
    assert_eq!(rows.len(), COUNT);
    let k: usize = kani::any();
    kani::assume(k < COUNT);
    let base = k * (DO + 2) + 2;
    match (&rows[k].data[0], &rows[k].data[1]) {
        (ColumnData::UInt16(a), ColumnData::UInt8(b)) => {
            assert_eq!(*a, ((body[base + DO - 2] as u16) << 8) | body[base + DO - 1] as u16);
            assert_eq!(*b, body[base]);
        }
        _ => panic!("wrong variants"),
    }
    kani::cover!(true);
    core::mem::forget(rows);
    core::mem::forget(exd);
    core::mem::forget(exh);
}
#[kani::proof]
#[kani::unwind(40)]
fn c05_subrows_2x4() { subrows::<2, 4, 12>(); }
#[kani::proof]
#[kani::unwind(40)]
fn c05_subrows_3x8() { subrows::<3, 8, 30>(); }

/// sub-rows with a string column: the string heap of sub-row i starts right after ITS fixed
/// region (sub-row start + data_offset), not after the row header.
/// Layout: 2 sub-rows x (2-byte id + 4-byte fixed region holding a u32 string offset), then heap.
#[kani::proof]
#[kani::unwind(40)]
fn c05_subrows_with_strings() {
    const DO: usize = 4;
    // sub-row 0: id @0..2, fixed @2..6 ; sub-row 1: id @6..8, fixed @8..12 ; heap bytes from 12
    let mut body = [0u8; 28];
    let junk: [u8; 4] = kani::any();
    body[0] = junk[0]; body[1] = junk[1]; body[6] = junk[2]; body[7] = junk[3];
    // string of sub-row 0 = base (2 + 4 = 6) + offset 6 = 12 ; of sub-row 1 = base (8 + 4 = 12) + offset 4 = 16
    body[5] = 6;
    body[11] = 4;
    body[12] = b'o'; body[13] = b'n'; body[14] = b'e'; body[15] = 0;
    body[16] = b't'; body[17] = b'w'; body[18] = b'o'; body[19] = 0;
    let mut data = vec![0u8; ROW_AT + 6 + 28];
    data[ROW_AT + 3] = 28;
    data[ROW_AT + 5] = 2;
    let mut i = 0;
    while i < 28 { data[ROW_AT + 6 + i] = body[i]; i += 1; }
    let exd = EXD { header: EXDHeader { version: 2, index_size: 8 }, data_offsets: vec![ExcelDataOffset { row_id: 9, offset: ROW_AT as u32 }], data };
    let exh = exh_with(vec![ExcelColumnDefinition { data_type: ColumnDataType::String, offset: 0 }], DO as u16);
    let rows = exd.read_row(&exh, 9).unwrap();
    assert_eq!(rows.len(), 2);
    match (&rows[0].data[0], &rows[1].data[0]) {
        (ColumnData::String(a), ColumnData::String(b)) => {
            assert!(a.as_bytes() == b"one");
            assert!(b.as_bytes() == b"two");
        }
        _ => panic!("wrong variants"),
    }
    kani::cover!(true);
    core::mem::forget((rows, exd, exh));
}

/// Guard in front of the real cell reader: a read that would run past the end of the data returns
/// `None` directly instead of going through binrw's error construction and drop glue (which CBMC
/// cannot get through, DESIGN.md section 3); in-range reads go to the real binrw reader.
fn guarded_read_data_raw<Z: BinRead<Args<'static> = ()>>(cursor: &mut Cursor<&Vec<u8>>) -> Option<Z> {
    let need = core::mem::size_of::<Z>() as u64;
    if cursor.position() + need > cursor.get_ref().len() as u64 {
        return None;
    }
    Z::read_options(cursor, Endian::Big, ()).ok()
}

/// large sheets: the sub-row stride arithmetic must not be done in 16 bits (3 sub-rows of 33000
/// bytes: 2 * 33000 does not fit u16).  A 99 KB buffer is out of reach for CBMC (10 GB in 7 min),
/// so the buffer is short and the column is a packed bool, whose reader yields `false` instead of
/// failing when the offset lies past the end of the data: with correct (32-bit) arithmetic the
/// call returns three records; with 16-bit arithmetic it panics in the dev profile.
#[kani::proof]
#[kani::unwind(8)]
#[kani::stub(EXD::read_data_raw, guarded_read_data_raw)]
fn c05_subrows_wide_records() {
    const DO: usize = 33000;
    const COUNT: usize = 3;
    let mut data = vec![0u8; ROW_AT + 6 + 4];
    data[ROW_AT + 5] = COUNT as u8;
    let v: u8 = kani::any();
    data[ROW_AT + 6 + 2] = v;
    let exd = EXD {
        header: EXDHeader { version: 2, index_size: 8 },
        data_offsets: vec![ExcelDataOffset { row_id: 9, offset: ROW_AT as u32 }],
        data,
    };
    let exh = exh_with(vec![ExcelColumnDefinition { data_type: ColumnDataType::PackedBool0, offset: 0 }], DO as u16);
    let rows = exd.read_row(&exh, 9).unwrap();
    assert_eq!(rows.len(), COUNT);
    match (&rows[0].data[0], &rows[1].data[0], &rows[2].data[0]) {
        (ColumnData::Bool(a), ColumnData::Bool(b), ColumnData::Bool(c)) => {
            assert_eq!(*a, v & 1 != 0);
            assert!(!*b); // offset 33040: past the end
            assert!(!*c); // offset 66042: past the end
        }
        _ => panic!("wrong variant"),
    }
    kani::cover!(true);
    core::mem::forget(rows);
    core::mem::forget(exd);
    core::mem::forget(exh);
}

/// unknown row id -> None; known id -> the FIRST matching index entry is used.
/// Ids are concrete per instance (a symbolic id makes the two return paths merge into one
/// symbolic heap pointer; that variant did not decide in 300 s); row contents are symbolic.
fn row_lookup(id0: u32, id1: u32, q: u32) {
    let f0: [u8; FIXED] = kani::any();
    let f1: [u8; FIXED] = kani::any();
    // two rows, at ROW_AT and ROW_AT + 6 + FIXED
    const R1: usize = ROW_AT + 6 + FIXED;
    let mut data = vec![0u8; R1 + 6 + FIXED];
    data[ROW_AT + 3] = FIXED as u8;
    data[ROW_AT + 5] = 1;
    data[R1 + 3] = FIXED as u8;
    data[R1 + 5] = 1;
    let mut i = 0;
    while i < FIXED {
        data[ROW_AT + 6 + i] = f0[i];
        data[R1 + 6 + i] = f1[i];
        i += 1;
    }
    let exd = EXD {
        header: EXDHeader { version: 2, index_size: 16 },
        data_offsets: vec![ExcelDataOffset { row_id: id0, offset: ROW_AT as u32 }, ExcelDataOffset { row_id: id1, offset: R1 as u32 }],
        data,
    };
    let exh = exh_with(vec![ExcelColumnDefinition { data_type: ColumnDataType::UInt8, offset: 3 }], FIXED as u16);
    let rows = exd.read_row(&exh, q);
    if q != id0 && q != id1 {
        assert!(rows.is_none());
    } else {
        let rows = rows.unwrap();
        assert_eq!(rows.len(), 1);
        let want = if q == id0 { f0[3] } else { f1[3] };
        match &rows[0].data[0] {
            ColumnData::UInt8(b) => assert_eq!(*b, want),
            _ => panic!("wrong variant"),
        }
        core::mem::forget(rows);
    }
    kani::cover!(true);
    core::mem::forget(exd);
    core::mem::forget(exh);
}
#[kani::proof]
#[kani::unwind(18)]
fn c05_row_lookup_second() { row_lookup(3, 7, 7); }
#[kani::proof]
#[kani::unwind(18)]
fn c05_row_lookup_first_of_duplicates() { row_lookup(7, 7, 7); }
#[kani::proof]
#[kani::unwind(18)]
fn c05_row_lookup_unknown() { row_lookup(3, 0xFFFF_FFFF, 7); }
#[kani::proof]
#[kani::unwind(18)]
fn c05_row_lookup_big_id() { row_lookup(0, 0x8000_0001, 0x8000_0001); }
/// the index need not be sorted by row id
#[kani::proof]
#[kani::unwind(18)]
fn c05_row_lookup_unsorted_index() { row_lookup(10, 3, 3); }

/// language ids as stored in sheet headers and the file-name suffix each one implies
/// (0 none, 1 ja, 2 en, 3 de, 4 fr, 5 chs, 6 cht, 7 ko)
#[kani::proof]
#[kani::unwind(10)]
fn c05_language_ids_and_codes() {
    let want: [&[u8]; 8] = [b"", b"ja", b"en", b"de", b"fr", b"chs", b"cht", b"ko"];
    let mut id = 0u8;
    while id < 8 {
        let raw = [id];
        let mut c = Cursor::new(&raw[..]);
        let lang = Language::read_le(&mut c).unwrap();
        assert_eq!(lang as u8, id);
        assert!(crate::common::get_language_code(&lang).as_bytes() == want[id as usize]);
        id += 1;
    }
    let x: u8 = kani::any();
    kani::cover!(x == 0);
}

#[kani::proof]
#[kani::unwind(18)]
fn c05_pipeline_witness() {
    let fixed: [u8; FIXED] = kani::any();
    let exd = one_row_exd(7, &fixed, &[]);
    let exh = exh_with(vec![ExcelColumnDefinition { data_type: ColumnDataType::UInt8, offset: 0 }], FIXED as u16);
    let rows = exd.read_row(&exh, 7).unwrap();
    core::mem::forget(rows);
    assert!(false);
}

// ------------------------------------------------------------------------------------- C18
/// a row index entry that points past the end of the data must be rejected, not crash
#[kani::proof]
#[kani::unwind(20)]
#[kani::stub(EXD::read_data_raw, guarded_read_data_raw)]
fn c18_read_row_cell_past_end() {
    let fixed: [u8; FIXED] = kani::any();
    let exd = one_row_exd(7, &fixed, &[]);
    // column offset beyond the row: the cell lies outside the file
    let exh = exh_with(vec![ExcelColumnDefinition { data_type: ColumnDataType::UInt32, offset: 200 }], FIXED as u16);
    let r = exd.read_row(&exh, 7);
    kani::cover!(true);
    core::mem::forget((r, exd, exh));
}

// ------------------------------------------------------------------------------ page file names
/// `<name>_<start id>[_<language code>].exd` (decided through the format! engine model, registry.FORMAT_MODEL)
fn page_filename_case(start: u32, li: u8) {
    let page = crate::exh::ExcelDataPagination { start_id: start, row_count: kani::any() };
    // (the numeric ids of the variants are decided by c05_language_ids_and_codes; parsing a *symbolic* id here
    // would open binrw's error path)
    let lang = match li { 0 => Language::None, 1 => Language::Japanese, 2 => Language::English, 3 => Language::German, 4 => Language::French,
        5 => Language::ChineseSimplified, 6 => Language::ChineseTraditional, _ => Language::Korean };
    let codes: [&[u8]; 8] = [b"", b"ja", b"en", b"de", b"fr", b"chs", b"cht", b"ko"];
    let got = EXD::calculate_filename("Item", lang, &page);
    // expected text, built independently: decimal digits of the start id without leading zeros
    let mut e = [0u8; 40];
    let mut n = 0;
    for b in b"Item_" { e[n] = *b; n += 1; }
    let mut digits = [0u8; 10];
    let mut v = start;
    let mut cnt = 0;
    let mut i = 0;
    while i < 10 { digits[9 - i] = b'0' + (v % 10) as u8; if v != 0 || i == 0 { cnt = i + 1; } v /= 10; i += 1; }
    i = 0;
    while i < 10 { if i + cnt >= 10 { e[n] = digits[i]; n += 1; } i += 1; }
    if li != 0 {
        e[n] = b'_'; n += 1;
        let code = codes[li as usize];
        i = 0;
        while i < code.len() { e[n] = code[i]; n += 1; i += 1; }
    }
    for b in b".exd" { e[n] = *b; n += 1; }
    let g = got.as_bytes();
    assert_eq!(g.len(), n);
    i = 0;
    while i < 40 { if i < n { assert_eq!(g[i], e[i]); } i += 1; }
    core::mem::forget(got);
}
/// every start id below 100 000 (symbolic) x every language (symbolic); the full 32-bit range did not decide in 900 s
#[kani::proof]
#[kani::unwind(100)]
fn c05_page_filename_ids_below_100000() {
    let start: u32 = kani::any();
    kani::assume(start < 100_000);
    let li: u8 = kani::any();
    kani::assume(li < 8);
    page_filename_case(start, li);
    kani::cover!(start >= 10_000 && li == 6);
    kani::cover!(start == 0 && li == 0);
}
/// wide start ids (concrete: 10 digits, the largest u32) x every language (symbolic)
#[kani::proof]
#[kani::unwind(100)]
fn c05_page_filename_wide_ids() {
    let li: u8 = kani::any();
    kani::assume(li < 8);
    page_filename_case(u32::MAX, li);
    page_filename_case(1_000_000_000, li);
    page_filename_case(123_456_789, li);
    kani::cover!(li == 5);
}

// ------------------------------------------------------------------- whole-file EXH parse
/// a generated 50-byte header (2 columns, 1 page, 2 languages) goes through EXH::from_existing: counts, column
/// types / offsets and language ids concrete; version, row count and page bounds symbolic.  (EXD::from_existing
/// copies the file with binrw's `until_eof`, whose end-of-file test goes through io::Error::kind(): each of the 50
/// iterations took ~19 s of symbolic execution -- no verdict in 1500 s; EXD values are constructed directly.)
#[kani::proof]
#[kani::unwind(60)]
fn c05_exh_from_existing() {
    let mut h: [u8; 50] = kani::any();
    h[0] = b'E'; h[1] = b'X'; h[2] = b'H'; h[3] = b'F';
    h[6] = 0; h[7] = 4;        // data offset (fixed region size) 4
    h[8] = 0; h[9] = 2;        // 2 columns
    h[10] = 0; h[11] = 1;      // 1 page
    h[12] = 0; h[13] = 2;      // 2 languages
    h[32] = 0; h[33] = 0x05; h[34] = 0; h[35] = 2;      // column 0: UInt16 at 2
    h[36] = 0; h[37] = 0x1C; h[38] = 0; h[39] = 1;      // column 1: packed bool 3 at 1
    h[48] = 1; h[49] = 2;      // Japanese, English
    let exh = EXH::from_existing(&h).unwrap();
    assert_eq!((exh.header.data_offset, exh.header.column_count, exh.header.page_count, exh.header.language_count), (4, 2, 1, 2));
    assert_eq!(exh.header.version, u16::from_be_bytes([h[4], h[5]]));
    assert_eq!(exh.header.row_count, u32::from_be_bytes([h[20], h[21], h[22], h[23]]));
    assert_eq!(exh.column_definitions.len(), 2);
    assert!(exh.column_definitions[0].data_type == ColumnDataType::UInt16 && exh.column_definitions[0].offset == 2);
    assert!(exh.column_definitions[1].data_type == ColumnDataType::PackedBool3 && exh.column_definitions[1].offset == 1);
    assert_eq!(exh.pages.len(), 1);
    assert_eq!(exh.pages[0].start_id, u32::from_be_bytes([h[40], h[41], h[42], h[43]]));
    assert_eq!(exh.pages[0].row_count, u32::from_be_bytes([h[44], h[45], h[46], h[47]]));
    assert_eq!(exh.languages.len(), 2);
    assert!(exh.languages[0] as u8 == 1 && exh.languages[1] as u8 == 2);

    kani::cover!(true);
    core::mem::forget(exh);
}
