#![allow(static_mut_refs, unused_imports, dead_code, unused_unsafe)]
// Kani harnesses for src/execlookup.rs
use super::*;

/// a NUL-terminated UTF-16BE string that follows the needle is returned
#[kani::proof]
#[kani::unwind(12)]
fn c17_find_needle_terminated() {
    // junk, "ab" "/x" NUL in UTF-16BE
    let file: [u8; 12] = [9, 9, 0, b'a', 0, b'b', 0, b'/', 0, b'x', 0, 0];
    let r = find_needle(&file, "ab").unwrap();
    assert!(r.as_bytes() == b"ab/x");
    let j: u8 = kani::any();
    kani::cover!(j == 0);
    core::mem::forget(r);
}

/// an executable that ends right after the string (no terminator) must not crash the scan
#[kani::proof]
#[kani::unwind(12)]
fn c17_find_needle_unterminated() {
    let file: [u8; 8] = [0, b'a', 0, b'b', 0, b'/', 0, b'x'];
    let r = find_needle(&file, "ab");
    let j: u8 = kani::any();
    kani::cover!(j == 0);
    core::mem::forget(r);
}

/// no needle -> None
#[kani::proof]
#[kani::unwind(12)]
fn c17_find_needle_absent() {
    let file: [u8; 6] = kani::any();
    kani::assume(file[0] != 0 && file[2] != 0 && file[4] != 0 && file[1] != 0 && file[3] != 0);
    assert!(find_needle(&file, "ab").is_none());
    kani::cover!(true);
}
