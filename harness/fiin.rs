#![allow(static_mut_refs, unused_imports, dead_code, unused_unsafe)]
// Kani harnesses for src/fiin.rs
use super::*;

/// one record: size @0, 4 reserved, name @8 NUL-padded to 64, digest @72 padded to 24 (96 bytes)
fn entry_layout<const NL: usize>(name: &[u8; NL]) {
    let size: i32 = kani::any();
    let digest: [u8; 20] = kani::any();
    let e = FIINEntry { file_size: size, file_name: unsafe { String::from_utf8_unchecked(name.to_vec()) }, sha1: digest.to_vec() };
    let mut out = [0xEEu8; 100];
    let mut w = Cursor::new(&mut out[..]);
    e.write_le(&mut w).unwrap();
    assert_eq!(w.position(), 96);
    assert_eq!(i32::from_le_bytes([out[0], out[1], out[2], out[3]]), size);
    let mut i = 0;
    while i < 64 { assert_eq!(out[8 + i], if i < NL { name[i] } else { 0 }); i += 1; }
    i = 0;
    while i < 24 { assert_eq!(out[72 + i], if i < 20 { digest[i] } else { 0 }); i += 1; }
    kani::cover!(true);
    core::mem::forget(e);
}
#[kani::proof]
#[kani::unwind(70)]
fn c10_entry_layout_name8() { entry_layout::<8>(b"test.exe"); }
#[kani::proof]
#[kani::unwind(70)]
fn c10_entry_layout_name1() { entry_layout::<1>(b"a"); }
#[kani::proof]
#[kani::unwind(70)]
fn c10_entry_layout_name63() { entry_layout::<63>(b"0123456789abcdef0123456789abcdef0123456789abcdef0123456789abcde"); }

/// the name field holds the name's UTF-8 *bytes* (2-, 3- and 4-byte characters: U+00E9, U+20AC, U+1F600)
#[kani::proof]
#[kani::unwind(70)]
fn c10_entry_layout_non_ascii_name() { entry_layout::<13>(&[b'c', 0xC3, 0xA9, b'_', 0xE2, 0x82, 0xAC, b'_', 0xF0, 0x9F, 0x98, 0x80, b'x']); }
/// every 5-byte ASCII name (symbolic bytes, NUL excluded)
#[kani::proof]
#[kani::unwind(70)]
fn c10_entry_layout_symbolic_ascii_name5() {
    let name: [u8; 5] = kani::any();
    kani::assume(name[0] != 0 && name[0] < 0x80 && name[1] != 0 && name[1] < 0x80 && name[2] != 0 && name[2] < 0x80 && name[3] != 0 && name[3] < 0x80 && name[4] != 0 && name[4] < 0x80);
    entry_layout::<5>(&name);
}

/// table header: magic, 1024 @24, entries*96 @28, records from 0x400
#[kani::proof]
#[kani::unwind(70)]
fn c10_table_layout_one_entry() {
    let size: i32 = kani::any();
    let digest: [u8; 20] = kani::any();
    let fi = FileInfo { entries: vec![FIINEntry { file_size: size, file_name: "ab.c".to_string(), sha1: digest.to_vec() }] };
    let mut out = [0xEEu8; 1024 + 96 + 4];
    let mut w = Cursor::new(&mut out[..]);
    fi.write(&mut w).unwrap();
    assert_eq!(w.position(), 1024 + 96);
    assert!(out[0] == b'F' && out[1] == b'i' && out[2] == b'l' && out[3] == b'e' && out[4] == b'I' && out[5] == b'n' && out[6] == b'f' && out[7] == b'o');
    assert_eq!(i32::from_le_bytes([out[24], out[25], out[26], out[27]]), 1024);
    assert_eq!(i32::from_le_bytes([out[28], out[29], out[30], out[31]]), 96);
    assert_eq!(i32::from_le_bytes([out[0x400], out[0x401], out[0x402], out[0x403]]), size);
    assert!(out[0x408] == b'a' && out[0x409] == b'b' && out[0x40A] == b'.' && out[0x40B] == b'c' && out[0x40C] == 0);
    let k: usize = kani::any();
    kani::assume(k < 20);
    assert_eq!(out[0x400 + 72 + k], digest[k]);
    kani::cover!(true);
    core::mem::forget(fi);
}

/// parse: entry count from the size field, fields from their positions
#[kani::proof]
#[kani::unwind(70)]
#[kani::stub(core::str::validations::run_utf8_validation, crate::verif_support::refs::ascii_utf8_validation)]
fn c10_parse_one_entry() {
    let mut buf = [0u8; 1024 + 96];
    let magic = b"FileInfo";
    let mut i = 0;
    while i < 8 { buf[i] = magic[i]; i += 1; }
    buf[25] = 4; // 1024
    buf[28] = 96;
    let size: i32 = kani::any();
    let sz = size.to_le_bytes();
    i = 0;
    while i < 4 { buf[0x400 + i] = sz[i]; i += 1; }
    buf[0x408] = b'q';
    buf[0x409] = b'z';
    let digest: [u8; 24] = kani::any();
    i = 0;
    while i < 24 { buf[0x400 + 72 + i] = digest[i]; i += 1; }
    let fi = FileInfo::from_existing(&buf).unwrap();
    assert_eq!(fi.entries.len(), 1);
    assert_eq!(fi.entries[0].file_size, size);
    assert!(fi.entries[0].file_name.as_bytes() == b"qz");
    assert_eq!(fi.entries[0].sha1.len(), 24);
    let k: usize = kani::any();
    kani::assume(k < 24);
    assert_eq!(fi.entries[0].sha1[k], digest[k]);
    kani::cover!(true);
    core::mem::forget(fi);
}

#[kani::proof]
#[kani::unwind(70)]
fn c10_pipeline_witness() {
    let e = FIINEntry { file_size: kani::any(), file_name: "a".to_string(), sha1: vec![0; 20] };
    let mut out = [0u8; 100];
    let mut w = Cursor::new(&mut out[..]);
    e.write_le(&mut w).unwrap();
    core::mem::forget(e);
    assert!(false);
}
