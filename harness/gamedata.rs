#![allow(static_mut_refs, unused_imports, dead_code, unused_unsafe)]
// Kani harnesses for src/gamedata.rs
use super::*;
use crate::repository::RepositoryType;
use crate::verif_support::refs::naive_memchr;

fn repo(name: &str, t: RepositoryType) -> Repository {
    Repository { name: name.to_string(), platform: Platform::Win32, repo_type: t, version: None }
}
// a HashMap can only be constructed if the OS-seeded hasher state is replaced (getrandom is a
// foreign call); the map is never consulted by the function under test
fn fixed_random_state() -> std::hash::RandomState {
    unsafe { core::mem::transmute::<(u64, u64), std::hash::RandomState>((0, 0)) }
}
fn game_data() -> GameData {
    GameData {
        game_directory: String::new(),
        repositories: vec![repo("ffxiv", RepositoryType::Base), repo("ex1", RepositoryType::Expansion { number: 1 }), repo("ex2", RepositoryType::Expansion { number: 2 })],
        index_files: HashMap::new(),
    }
}

/// path `bg/<3 symbolic bytes>/<1 symbolic byte>`: the repository is the one named by the second
/// path component, the base repository if that component names none
#[kani::proof]
#[kani::unwind(12)]
#[kani::stub(std::hash::RandomState::new, fixed_random_state)]
fn c01_repository_selection_bg() {
    let gd = game_data();
    let t: [u8; 3] = kani::any();
    kani::assume(t[0] >= b'a' && t[0] <= b'z' && t[1] >= b'a' && t[1] <= b'z' && t[2] >= b'0' && t[2] <= b'9');
    let f: u8 = kani::any();
    kani::assume(f >= b'a' && f <= b'z');
    let raw = [b'b', b'g', b'/', t[0], t[1], t[2], b'/', f];
    let path = unsafe { core::str::from_utf8_unchecked(&raw) };
    let (r, c) = gd.parse_repository_category(path).unwrap();
    assert!(c == Category::Background);
    let want: &[u8] = if t == *b"ex1" { b"ex1" } else if t == *b"ex2" { b"ex2" } else { b"ffxiv" };
    assert!(r.name.as_bytes() == want);
    kani::cover!(t == *b"ex2");
    kani::cover!(t != *b"ex1" && t != *b"ex2");
    core::mem::forget(gd);
}

/// deeper paths and other categories (concrete shapes): music/ex2/a/b, exd/root.exl, chara/x
#[kani::proof]
#[kani::unwind(28)]
#[kani::stub(std::hash::RandomState::new, fixed_random_state)]
#[kani::stub(core::slice::memchr::memchr_aligned, naive_memchr)]
fn c01_repository_selection_shapes() {
    let gd = game_data();
    let (r, c) = gd.parse_repository_category("music/ex2/a/b.scd").unwrap();
    assert!(c == Category::Music && r.name == "ex2");
    let (r, c) = gd.parse_repository_category("exd/root.exl").unwrap();
    assert!(c == Category::EXD && r.name == "ffxiv");
    let (r, c) = gd.parse_repository_category("chara/ex1").unwrap();
    assert!(c == Category::Character && r.name == "ex1");
    let (r, c) = gd.parse_repository_category("bg/ffxiv/fst_f1/x.lgb").unwrap();
    assert!(c == Category::Background && r.name == "ffxiv");
    // a base-game file or folder whose name merely BEGINS like an expansion name stays in the base repository
    let (r, c) = gd.parse_repository_category("exd/ex1_opening_0.exd").unwrap();
    assert!(c == Category::EXD && r.name == "ffxiv");
    let (r, c) = gd.parse_repository_category("music/ex2_preview/bgm.scd").unwrap();
    assert!(c == Category::Music && r.name == "ffxiv");
    // unknown category -> None
    assert!(gd.parse_repository_category("nope/ex1/x").is_none());
    // no directory at all -> None
    assert!(gd.parse_repository_category("file").is_none());
    kani::cover!(true);
    core::mem::forget(gd);
}

#[kani::proof]
#[kani::unwind(12)]
#[kani::stub(std::hash::RandomState::new, fixed_random_state)]
fn c01g_pipeline_witness() {
    let gd = game_data();
    let _ = gd.parse_repository_category("bg/x");
    core::mem::forget(gd);
    assert!(false);
}
