#![allow(static_mut_refs, unused_imports, dead_code, unused_unsafe)]
// Kani harnesses for src/gearsets.rs and src/dat.rs
use super::*;
use crate::dat::{DatFileType, DatHeader};

const MARK: u32 = 1_000_000; // the marker the writer adds to every item id

/// ids that share no bit with the marker survive write + read (add marker, strip marker)
#[kani::proof]
fn c09_gear_id_marker_disjoint_ids() {
    let id: u32 = kani::any();
    kani::assume(id & MARK == 0);
    assert_eq!(convert_from_gear_id(convert_to_gear_id(&id)), id);
    // the stored value carries the marker
    assert_eq!(convert_to_gear_id(&id), id + MARK);
    kani::cover!(id > 40000);
}

/// ... and so must ids that do share bits with it (any 32-bit item id is valid)
#[kani::proof]
fn c09_gear_id_marker_overlapping_ids() {
    let id: u32 = kani::any();
    kani::assume(id & MARK != 0);
    kani::assume(id < 1_000_000);
    assert_eq!(convert_from_gear_id(convert_to_gear_id(&id)), id);
    kani::cover!(true);
}

#[kani::proof]
fn c09_optional_ids() {
    let id: u32 = kani::any();
    let o = convert_id_opt(id);
    assert_eq!(o.is_none(), id == 0);
    assert_eq!(convert_opt_id(&o), id);
    assert_eq!(convert_opt_id(&None), 0);
    kani::cover!(id == 0);
    kani::cover!(id != 0);
}

/// gear slot record: 7 little-endian u32 (item id + marker, glamour id or 0, five more words)
#[kani::proof]
#[kani::unwind(10)]
fn c09_gear_slot_layout() {
    let id: u32 = kani::any();
    kani::assume(id & MARK == 0 && id != 0);
    let glam: u32 = kani::any();
    let u: [u32; 5] = kani::any();
    let s = GearSlot { id, glamour_id: if glam == 0 { None } else { Some(glam) }, unknown1: u[0], unknown2: u[1], unknown3: u[2], unknown4: u[3], unknown5: u[4] };
    let mut out = [0u8; 28];
    let mut w = Cursor::new(&mut out[..]);
    s.write_le(&mut w).unwrap();
    assert_eq!(w.position(), 28);
    let word = |k: usize| u32::from_le_bytes([out[4 * k], out[4 * k + 1], out[4 * k + 2], out[4 * k + 3]]);
    assert_eq!(word(0), id + MARK);
    assert_eq!(word(1), glam);
    assert_eq!((word(2), word(3), word(4), word(5), word(6)), (u[0], u[1], u[2], u[3], u[4]));
    let mut r = Cursor::new(&out[..]);
    let back = GearSlot::read_le(&mut r).unwrap();
    assert_eq!(back.id, id);
    assert_eq!(back.glamour_id, s.glamour_id);
    assert_eq!((back.unknown1, back.unknown5), (u[0], u[4]));
    kani::cover!(glam == 0);
    kani::cover!(glam != 0);
}

/// dat header: type magic, max size, content size, 4 reserved bytes, 0xFF terminator (17 bytes)
#[kani::proof]
#[kani::unwind(10)]
fn c09_dat_header_layout() {
    let max_size: u32 = kani::any();
    let content_size: u32 = kani::any();
    let h = DatHeader { file_type: DatFileType::Gearset, max_size, content_size };
    let mut out = [0xEEu8; 20];
    let mut w = Cursor::new(&mut out[..]);
    h.write_le(&mut w).unwrap();
    assert_eq!(w.position(), 17);
    assert_eq!(u32::from_le_bytes([out[0], out[1], out[2], out[3]]), 0x006d0005);
    assert_eq!(u32::from_le_bytes([out[4], out[5], out[6], out[7]]), max_size);
    assert_eq!(u32::from_le_bytes([out[8], out[9], out[10], out[11]]), content_size);
    assert_eq!((out[12], out[13], out[14], out[15]), (0, 0, 0, 0));
    assert_eq!(out[16], 0xFF);
    let mut r = Cursor::new(&out[..]);
    let back = DatHeader::read(&mut r).unwrap();
    assert_eq!((back.max_size, back.content_size), (max_size, content_size));
    assert_eq!(r.position(), 17);
    kani::cover!(true);
}

/// slot type numbering and its mapping to equipment slots
#[kani::proof]
#[kani::unwind(4)]
fn c09_slot_type_tables() {
    let v: usize = kani::any();
    match GearSlotType::try_from(v) {
        Ok(t) => {
            assert!(v < 14);
            assert_eq!(t.clone() as usize, v);
            // equipment slot mapping is a partial inverse pair
            if let Some(s) = t.to_slot() {
                assert!(GearSlotType::try_from(s) == Ok(t));
            }
        }
        Err(()) => assert!(v >= 14),
    }
    kani::cover!(v == 13);
    kani::cover!(v >= 14);
}

fn fixed_random_state() -> std::hash::RandomState {
    unsafe { core::mem::transmute::<(u64, u64), std::hash::RandomState>((0, 0)) }
}
fn named(index: u8) -> GearSet {
    GearSet { index, name: "x".to_string(), unknown1: 0, slots: HashMap::new(), facewear: None }
}
/// the fixed 100-slot table: position i of the list goes to record i, for every i < 100
/// (first, middle and LAST position occupied), the others are empty records
#[kani::proof]
#[kani::unwind(104)]
#[kani::stub(std::hash::RandomState::new, fixed_random_state)]
fn c09_gearset_table_positions() {
    let (a, b, c): (u8, u8, u8) = (kani::any(), kani::any(), kani::any());
    let mut list: Vec<Option<GearSet>> = Vec::with_capacity(100);
    let mut i = 0;
    while i < 100 {
        list.push(if i == 0 { Some(named(a)) } else if i == 57 { Some(named(b)) } else if i == 99 { Some(named(c)) } else { None });
        i += 1;
    }
    let table = convert_to_gearsets(&list);
    assert_eq!(table.len(), 100);
    assert_eq!((table[0].index, table[57].index, table[99].index), (a, b, c));
    assert!(table[0].name.len() == 1 && table[57].name.len() == 1 && table[99].name.len() == 1);
    assert!(table[1].name.is_empty() && table[98].name.is_empty() && table[56].name.is_empty());
    kani::cover!(true);
    core::mem::forget((list, table));
}

/// C17: a gear-set record with an item in ANY of the 14 on-disk slots converts without panicking,
/// and the occupied slot is kept.  Positions are enumerated concretely (a symbolic position makes
/// the hash-map key, and with it the probe sequence, symbolic: out of memory); the id is symbolic.
fn gear_slot_position(occupied: usize) {
    let id: u32 = kani::any();
    kani::assume(id != 0);
    let mut slots: [GearSlot; 14] = Default::default();
    slots[occupied].id = id;
    let map = convert_from_slots(slots);
    assert_eq!(map.len(), 1);
    core::mem::forget(map);
}
#[kani::proof]
#[kani::unwind(20)]
#[kani::stub(std::hash::RandomState::new, fixed_random_state)]
fn c17_gear_slots_positions_0_to_6() {
    let mut p = 0;
    while p < 7 { gear_slot_position(p); p += 1; }
    kani::cover!(true);
}
#[kani::proof]
#[kani::unwind(20)]
#[kani::stub(std::hash::RandomState::new, fixed_random_state)]
fn c17_gear_slots_positions_7_to_13() {
    let mut p = 7;
    while p < 14 { gear_slot_position(p); p += 1; }
    kani::cover!(true);
}

#[kani::proof]
fn c09g_pipeline_witness() {
    let id: u32 = kani::any();
    let _ = convert_to_gear_id(&id);
    assert!(false);
}

// ------------------------------------------------------------------------------------- C17
/// a gear-set file whose header announces an EMPTY body (content size 0 -- e.g. a file the game
/// pre-allocated but never filled, or a zeroed one) is rejected or read, never a panic
#[kani::proof]
#[kani::unwind(24)]
fn c17_gearsets_header_with_empty_body() {
    let mut b: [u8; 20] = kani::any();
    b[0] = 0x05; b[1] = 0x00; b[2] = 0x6d; b[3] = 0x00;       // GEARSET.DAT tag
    b[8] = 0; b[9] = 0; b[10] = 0; b[11] = 0;                 // content size 0
    let r = GearSets::from_existing(&b);
    kani::cover!(r.is_none());
    core::mem::forget(r);
}
/// a header announcing MORE body bytes than the file holds behind it (a file cut short at its end, or a corrupted
/// size) -- including sizes that would still fit into the file as a whole -- is rejected, never a panic.
/// The size is concrete per instance (a symbolic one makes the allocation size symbolic: no verdict in 10 min).
fn body_longer_than_file(cs: u8) {
    let mut b: [u8; 20] = kani::any();
    b[0] = 0x05; b[1] = 0x00; b[2] = 0x6d; b[3] = 0x00;       // GEARSET.DAT tag
    b[8] = cs; b[9] = 0; b[10] = 0; b[11] = 0;                // the body would need cs - 1 bytes, 3 are there
    let r = GearSets::from_existing(&b);
    assert!(r.is_none());
    kani::cover!(true);
    core::mem::forget(r);
}
#[kani::proof]
#[kani::unwind(24)]
fn c17_gearsets_body_one_byte_longer_than_file() { body_longer_than_file(5); }
#[kani::proof]
#[kani::unwind(24)]
fn c17_gearsets_body_as_long_as_whole_file() { body_longer_than_file(21); }
#[kani::proof]
#[kani::unwind(24)]
fn c17_gearsets_body_between() { body_longer_than_file(12); }

/// the write-side name conversion keeps every byte of a name that fits the 47-byte field (46 bytes + terminator):
/// all ASCII names of the given (concrete) length, symbolic bytes
fn gearset_name_case<const L: usize>() {
    let b: [u8; L] = kani::any();
    let mut i = 0;
    while i < L { kani::assume(b[i] != 0 && b[i] < 0x80); i += 1; }
    let name = unsafe { String::from_utf8_unchecked(b.to_vec()) };
    let ns = convert_from_string(&name);
    assert_eq!(ns.0.len(), L);
    let k: usize = kani::any();
    kani::assume(k < L);
    assert_eq!(ns.0[k], b[k]);
    // (the read-side conversion `NullString::to_string` goes through core::fmt and is outside this harness)
    kani::cover!(true);
    core::mem::forget((name, ns));
}
#[kani::proof]
#[kani::unwind(50)]
#[kani::stub(core::str::validations::run_utf8_validation, crate::verif_support::refs::ascii_utf8_validation)]
fn c09_gearset_name_len46() { gearset_name_case::<46>(); }
#[kani::proof]
#[kani::unwind(50)]
#[kani::stub(core::str::validations::run_utf8_validation, crate::verif_support::refs::ascii_utf8_validation)]
fn c09_gearset_name_len45() { gearset_name_case::<45>(); }
#[kani::proof]
#[kani::unwind(50)]
#[kani::stub(core::str::validations::run_utf8_validation, crate::verif_support::refs::ascii_utf8_validation)]
fn c09_gearset_name_len1() { gearset_name_case::<1>(); }

/// the longest name the field holds, concrete text (decided by constant propagation): every one of the 46 bytes is kept
#[kani::proof]
#[kani::unwind(50)]
#[kani::stub(core::str::validations::run_utf8_validation, crate::verif_support::refs::ascii_utf8_validation)]
fn c09_gearset_name_concrete46() {
    let text = b"ABCDEFGHIJKLMNOPQRSTUVWXYZabcdefghijklmnopqrst";
    let name = unsafe { String::from_utf8_unchecked(text.to_vec()) };
    assert_eq!(name.len(), 46);
    let ns = convert_from_string(&name);
    assert_eq!(ns.0.len(), 46);
    let mut i = 0;
    while i < 46 { assert_eq!(ns.0[i], text[i]); i += 1; }
    kani::cover!(true);
    core::mem::forget((name, ns));
}
