#![allow(static_mut_refs, unused_imports, dead_code, unused_unsafe)]
// Kani harnesses for src/havok/binary_tag_file_reader.rs: the two bit-level decoders every tag file goes through
use super::*;

/// presence bit field of `count` members: ceil(count / 8) bytes are consumed and member i is present exactly when
/// bit (i mod 8) of byte (i div 8) is set -- in particular for counts that are multiples of 8 (and 0)
fn bit_field_case<const COUNT: usize>() {
    let data: [u8; 5] = kani::any();
    let mut r = HavokBinaryTagFileReader::new(ByteReader::new(&data));
    let bits = r.read_bit_field(COUNT);
    assert_eq!(bits.len(), COUNT);
    assert_eq!(r.reader.raw().len(), 5 - (COUNT + 7) / 8);
    let mut i = 0;
    while i < COUNT {
        assert_eq!(bits[i], (data[i / 8] >> (i % 8)) & 1 == 1);
        i += 1;
    }
    kani::cover!(true);
    core::mem::forget((bits, r));
}
#[kani::proof]
#[kani::unwind(20)]
fn c16_havok_bit_field_count0() { bit_field_case::<0>(); }
#[kani::proof]
#[kani::unwind(20)]
fn c16_havok_bit_field_count7() { bit_field_case::<7>(); }
#[kani::proof]
#[kani::unwind(20)]
fn c16_havok_bit_field_count8() { bit_field_case::<8>(); }
#[kani::proof]
#[kani::unwind(20)]
fn c16_havok_bit_field_count9() { bit_field_case::<9>(); }
#[kani::proof]
#[kani::unwind(20)]
fn c16_havok_bit_field_count16() { bit_field_case::<16>(); }

/// packed integer: first byte = sign (bit 0), six value bits, continuation (bit 7); every further byte seven value
/// bits and a continuation bit; little-endian groups.  All encodings of one to four bytes.
#[kani::proof]
#[kani::unwind(8)]
fn c16_havok_packed_int() {
    let data: [u8; 6] = kani::any();
    // at most four bytes: the fourth byte ends the number
    kani::assume(data[0] & 0x80 == 0 || data[1] & 0x80 == 0 || data[2] & 0x80 == 0 || data[3] & 0x80 == 0);
    let mut r = HavokBinaryTagFileReader::new(ByteReader::new(&data));
    let got = r.read_packed_int();
    let mut mag: u32 = ((data[0] >> 1) & 0x3f) as u32;
    let mut used = 1;
    if data[0] & 0x80 != 0 {
        mag |= ((data[1] & 0x7f) as u32) << 6;
        used = 2;
        if data[1] & 0x80 != 0 {
            mag |= ((data[2] & 0x7f) as u32) << 13;
            used = 3;
            if data[2] & 0x80 != 0 {
                mag |= ((data[3] & 0x7f) as u32) << 20;
                used = 4;
            }
        }
    }
    let want = if data[0] & 1 == 1 { -(mag as i32) } else { mag as i32 };
    assert_eq!(got, want);
    assert_eq!(r.reader.raw().len(), 6 - used);
    kani::cover!(used == 4 && data[0] & 1 == 1);
    kani::cover!(used == 1);
    core::mem::forget(r);
}

#[kani::proof]
#[kani::unwind(8)]
fn c16h_pipeline_witness() {
    let data: [u8; 2] = kani::any();
    let mut r = HavokBinaryTagFileReader::new(ByteReader::new(&data));
    let b = r.read_bit_field(3);
    core::mem::forget((b, r));
    assert!(false);
}
