#![allow(static_mut_refs, unused_imports, dead_code, unused_unsafe)]
// Kani harnesses for src/layer/mod.rs
use super::*;
use std::io::Cursor;

/// a heap string is every byte up to (not including) the first NUL at heap start + offset -- spaces, tabs and
/// other non-graphic bytes included -- and reading it leaves the reader where it was.  The text is concrete
/// (pushing symbolic bytes into a String does not decide), its surroundings and the reader position symbolic.
fn heap_string_case<const N: usize>(text: &[u8; N]) {
    let mut b: [u8; 40] = kani::any();
    let mut i = 0;
    while i < N { b[5 + i] = text[i]; i += 1; }
    b[5 + N] = 0;
    let heap = StringHeap::from(2);
    let mut c = Cursor::new(&b[..]);
    let at: u64 = kani::any();
    kani::assume(at <= 40);
    c.set_position(at);
    let s = heap.read_string(&mut c, 3);
    assert_eq!(s.as_bytes().len(), N);
    i = 0;
    while i < N { assert_eq!(s.as_bytes()[i], text[i]); i += 1; }
    assert_eq!(c.position(), at);
    kani::cover!(at == 40);
    kani::cover!(at == 0);
    core::mem::forget(s);
}
#[kani::proof]
#[kani::unwind(16)]
fn c16_layer_heap_string_with_spaces() { heap_string_case(b"Plan Live\t01"); }
#[kani::proof]
#[kani::unwind(16)]
fn c16_layer_heap_string_leading_space_and_punctuation() { heap_string_case(b" bg_~!\x7f\x01z"); }
#[kani::proof]
#[kani::unwind(16)]
fn c16_layer_heap_string_empty() { heap_string_case(b""); }

#[kani::proof]
#[kani::unwind(16)]
fn c16l_pipeline_witness() {
    let b: [u8; 8] = [0; 8];
    let heap = StringHeap::from(0);
    let mut c = Cursor::new(&b[..]);
    let s = heap.read_string(&mut c, 0);
    core::mem::forget(s);
    assert!(false);
}
