#![allow(static_mut_refs, unused_imports, dead_code, unused_unsafe)]
// Kani harnesses for src/model.rs: header recomputation after edits (one inductive step)
use super::*;
use crate::model_vertex_declarations::VertexElement;

fn lod0() -> MeshLod {
    MeshLod { mesh_index: 0, mesh_count: 0, model_lod_range: 0.0, texture_lod_range: 0.0,
        water_mesh_index: 0, water_mesh_count: 0, shadow_mesh_index: 0, shadow_mesh_count: 0,
        terrain_shadow_mesh_count: 0, terrain_shadow_mesh_index: 0, vertical_fog_mesh_index: 0,
        vertical_fog_mesh_count: 0, edge_geometry_size: 0, edge_geometry_data_offset: 0,
        polygon_count: 0, vertex_buffer_size: 0, index_buffer_size: 0, vertex_data_offset: 0, index_data_offset: 0 }
}
fn bbox() -> BoundingBox { BoundingBox { min: [0.0; 4], max: [0.0; 4] } }

/// arbitrary mesh table entry: symbolic vertex count (<= 255), index count (<= 2^24), 1..3 streams
/// with strides <= 15, arbitrary stale offsets/start index (whatever earlier edits left behind)
fn any_mesh(submesh_index: u16) -> Mesh {
    let sc: u8 = kani::any();
    kani::assume(sc >= 1 && sc <= 3);
    let ic: u32 = kani::any();
    kani::assume(ic <= (1 << 24));
    let vc: u16 = kani::any();
    kani::assume(vc <= 255);
    let st: [u8; 3] = kani::any();
    kani::assume(st[0] <= 15 && st[1] <= 15 && st[2] <= 15);
    Mesh { vertex_count: vc, index_count: ic, material_index: 0, submesh_index, submesh_count: 1,
        bone_table_index: 0, start_index: kani::any(), vertex_buffer_offsets: kani::any(),
        vertex_buffer_strides: st, vertex_stream_count: sc }
}

fn model_with(meshes: Vec<Mesh>, submeshes: Vec<Submesh>, lod_meshes: [(u16, u16); 3], used_lods: u8, parts: Vec<Lod>) -> MDL {
    let mut lods = vec![lod0(), lod0(), lod0()];
    let mut i = 0;
    while i < 3 {
        lods[i].mesh_index = lod_meshes[i].0;
        lods[i].mesh_count = lod_meshes[i].1;
        // stale values from before the edit
        lods[i].vertex_buffer_size = kani::any();
        lods[i].index_buffer_size = kani::any();
        lods[i].vertex_data_offset = kani::any();
        lods[i].index_data_offset = kani::any();
        i += 1;
    }
    let header = ModelHeader { vertex_declarations: vec![], string_count: 0, string_size: 0, strings: vec![], radius: 0.0,
        mesh_count: meshes.len() as u16, attribute_count: 0, submesh_count: submeshes.len() as u16, material_count: 0, bone_count: 0, bone_table_count: 0,
        shape_count: 0, shape_mesh_count: 0, shape_value_count: 0, lod_count: used_lods, flags1: ModelFlags1::ShadowDisabled,
        element_id_count: 0, terrain_shadow_mesh_count: 0, flags2: ModelFlags2::None, model_clip_out_of_distance: 0.0,
        shadow_clip_out_of_distance: 0.0, unknown4: 0, terrain_shadow_submesh_count: 0, unknown5: 0,
        bg_change_material_index: 0, bg_crest_change_material_index: 0, unknown6: 0, unknown7: 0, unknown8: 0, unknown9: 0 };
    let model_data = ModelData { header, element_ids: vec![], lods, meshes, attribute_name_offsets: vec![],
        terrain_shadow_meshes: vec![], submeshes, terrain_shadow_submeshes: vec![], material_name_offsets: vec![],
        bone_name_offsets: vec![], bone_tables: vec![], bone_tables_v2: vec![], shapes: vec![], shape_meshes: vec![],
        shape_values: vec![], submesh_bone_map_size: 0, submesh_bone_map_size_v2: 0, submesh_bone_map: vec![],
        padding_amount: 0, unknown_padding: vec![], bounding_box: bbox(), model_bounding_box: bbox(),
        water_bounding_box: bbox(), vertical_fog_bounding_box: bbox(), bone_bounding_boxes: vec![] };
    let file_header = ModelFileHeader { version: 0x1000005, stack_size: kani::any(), runtime_size: kani::any(), vertex_declaration_count: 2,
        material_count: 0, vertex_offsets: kani::any(), index_offsets: kani::any(), vertex_buffer_size: kani::any(),
        index_buffer_size: kani::any(), lod_count: used_lods, index_buffer_streaming_enabled: false, has_edge_geometry: false };
    MDL { file_header, model_data, lods: parts, affected_bone_names: vec![], material_names: vec![] }
}
fn part(i: u16) -> Part {
    Part { mesh_index: i, vertices: vec![], vertex_streams: vec![], vertex_stream_strides: vec![], indices: vec![], material_index: 0, submeshes: vec![], shapes: vec![] }
}

/// the representation invariant of the header after update_headers(), for the LODs in use:
/// per-LOD vertex section = sum over its meshes of count x stride, streams laid out back to back
/// inside it; index section = 2 bytes per index padded to 16; sections consecutive and disjoint,
/// starting at 0x44 + stack + runtime; file header mirrors the LOD table; start_index follows
/// the first sub-mesh
fn check_invariant(mdl: &MDL, used_lods: usize, mesh_of_lod: &[&[usize]]) {
    let data_start = 0x44u64 + mdl.file_header.stack_size as u64 + mdl.file_header.runtime_size as u64;
    let mut cursor = data_start;
    let mut l = 0;
    while l < used_lods {
        let lod = &mdl.model_data.lods[l];
        let mut lod_vertex_bytes: u64 = 0;
        let mut lod_indices: u64 = 0;
        let mut k = 0;
        while k < mesh_of_lod[l].len() {
            let m = &mdl.model_data.meshes[mesh_of_lod[l][k]];
            let mut s = 0;
            while s < m.vertex_stream_count as usize {
                // stream s of this mesh starts where the previous stream (or mesh) ended
                assert_eq!(m.vertex_buffer_offsets[s] as u64, lod_vertex_bytes);
                lod_vertex_bytes += m.vertex_count as u64 * m.vertex_buffer_strides[s] as u64;
                s += 1;
            }
            lod_indices += m.index_count as u64;
            assert_eq!(m.start_index, mdl.model_data.submeshes[m.submesh_index as usize].index_offset);
            k += 1;
        }
        assert_eq!(lod.vertex_buffer_size as u64, lod_vertex_bytes);
        assert_eq!(lod.vertex_data_offset as u64, cursor);
        cursor += lod.vertex_buffer_size as u64;
        assert_eq!(lod.index_data_offset as u64, cursor);
        assert!(lod.index_buffer_size as u64 >= 2 * lod_indices);
        assert_eq!(lod.index_buffer_size % 16, 0);
        assert!(lod.index_buffer_size as u64 - 2 * lod_indices <= 16);
        cursor += lod.index_buffer_size as u64;
        assert_eq!(mdl.file_header.vertex_offsets[l], lod.vertex_data_offset);
        assert_eq!(mdl.file_header.index_offsets[l], lod.index_data_offset);
        assert_eq!(mdl.file_header.vertex_buffer_size[l], lod.vertex_buffer_size);
        assert_eq!(mdl.file_header.index_buffer_size[l], lod.index_buffer_size);
        l += 1;
    }
}

/// two LODs in use, one mesh each
#[kani::proof]
#[kani::unwind(5)]
fn c07_update_headers_two_lods() {
    let meshes = vec![any_mesh(0), any_mesh(1)];
    let submeshes = vec![
        Submesh { index_offset: kani::any(), index_count: meshes[0].index_count, attribute_index_mask: 0, bone_start_index: 0, bone_count: 0 },
        Submesh { index_offset: kani::any(), index_count: meshes[1].index_count, attribute_index_mask: 0, bone_start_index: 0, bone_count: 0 },
    ];
    let mut mdl = model_with(meshes, submeshes, [(0, 1), (1, 1), (2, 0)], 2, vec![Lod { parts: vec![part(0)] }, Lod { parts: vec![part(1)] }]);
    mdl.update_headers();
    check_invariant(&mdl, 2, &[&[0], &[1]]);
    kani::cover!(true);
    core::mem::forget(mdl);
}

/// one LOD with two meshes (second mesh's streams follow the first mesh's)
#[kani::proof]
#[kani::unwind(5)]
fn c07_update_headers_two_meshes() {
    let meshes = vec![any_mesh(0), any_mesh(1)];
    let submeshes = vec![
        Submesh { index_offset: kani::any(), index_count: meshes[0].index_count, attribute_index_mask: 0, bone_start_index: 0, bone_count: 0 },
        Submesh { index_offset: kani::any(), index_count: meshes[1].index_count, attribute_index_mask: 0, bone_start_index: 0, bone_count: 0 },
    ];
    let mut mdl = model_with(meshes, submeshes, [(0, 2), (2, 0), (2, 0)], 1, vec![Lod { parts: vec![part(0), part(1)] }]);
    mdl.update_headers();
    check_invariant(&mdl, 1, &[&[0, 1]]);
    kani::cover!(true);
    core::mem::forget(mdl);
}

/// replace_vertices: the mesh table takes the new vertex / index counts and the sub-mesh table the
/// new ranges, then the header invariant is re-established
#[kani::proof]
#[kani::unwind(8)]
fn c07_replace_vertices_step() {
    // the edited mesh owns sub-mesh slot 1 of the header table; slot 0 belongs to something else and must not move.
    // The ranges handed in come from another part's list (they carry slot number 0): the slot that is updated is the
    // edited part's own, not the one the caller's value happens to name.
    let meshes = vec![any_mesh(1)];
    let (other_off, other_cnt): (u32, u32) = (kani::any(), kani::any());
    let submeshes = vec![Submesh { index_offset: other_off, index_count: other_cnt, attribute_index_mask: 0, bone_start_index: 0, bone_count: 0 },
                         Submesh { index_offset: kani::any(), index_count: kani::any(), attribute_index_mask: 0, bone_start_index: 0, bone_count: 0 }];
    let mut p = part(0);
    p.submeshes = vec![SubMesh { submesh_index: 1, index_count: 0, index_offset: 0 }];
    let mut mdl = model_with(meshes, submeshes, [(0, 1), (1, 0), (1, 0)], 1, vec![Lod { parts: vec![p] }]);
    let verts = [Vertex::default(), Vertex::default(), Vertex::default()];
    let idx: [u16; 6] = kani::any();
    let new_off: u32 = kani::any();
    let new_sub = [SubMesh { submesh_index: 0, index_count: 6, index_offset: new_off }];
    mdl.replace_vertices(0, 0, &verts, &idx, &new_sub);
    assert_eq!(mdl.model_data.meshes[0].vertex_count, 3);
    assert_eq!(mdl.model_data.meshes[0].index_count, 6);
    assert_eq!(mdl.model_data.submeshes[1].index_offset, new_off);
    assert_eq!(mdl.model_data.submeshes[1].index_count, 6);
    assert_eq!((mdl.model_data.submeshes[0].index_offset, mdl.model_data.submeshes[0].index_count), (other_off, other_cnt));
    assert_eq!(mdl.lods[0].parts[0].indices.len(), 6);
    assert_eq!(mdl.lods[0].parts[0].vertices.len(), 3);
    let k: usize = kani::any();
    kani::assume(k < 6);
    assert_eq!(mdl.lods[0].parts[0].indices[k], idx[k]);
    check_invariant(&mdl, 1, &[&[0]]);
    // the (empty) next LOD starts right behind this LOD's index section
    let end0 = mdl.model_data.lods[0].index_data_offset as u64 + mdl.model_data.lods[0].index_buffer_size as u64;
    assert_eq!(mdl.model_data.lods[1].vertex_data_offset as u64, end0);
    kani::cover!(true);
    core::mem::forget(mdl);
}

#[kani::proof]
#[kani::unwind(5)]
fn c07m_pipeline_witness() {
    let meshes = vec![any_mesh(0)];
    let submeshes = vec![Submesh { index_offset: 0, index_count: 0, attribute_index_mask: 0, bone_start_index: 0, bone_count: 0 }];
    let mut mdl = model_with(meshes, submeshes, [(0, 1), (1, 0), (1, 0)], 1, vec![Lod { parts: vec![part(0)] }]);
    mdl.update_headers();
    core::mem::forget(mdl);
    assert!(false);
}

// =================================================================================================
// C06: MDL::from_existing on a generated minimal version-5 model (1 LOD, 1 mesh, 1 sub-mesh,
// 1 material name, 2 vertices in 2 streams, 3 indices).  Layout (counts, offsets, strides, the
// declaration's stream/type/usage tags) is concrete; the vertex and index BUFFER BYTES are symbolic.
// =================================================================================================
const M_TOTAL: usize = 728;
const M_MODEL: usize = 68;          // ModelData starts behind the 0x44-byte file header
const M_DECL: usize = M_MODEL;      // 136 bytes of vertex declaration
const M_STR: usize = M_DECL + 136;  // string_count(2) pad(2) string_size(4) strings(4)
const M_HDR: usize = M_STR + 12;    // radius ... unknown9 + pad: 56 bytes
const M_LODS: usize = M_HDR + 56;   // 3 x 60
const M_MESH: usize = M_LODS + 180; // 36
const M_SUB: usize = M_MESH + 36;   // 16
const M_MATOFF: usize = M_SUB + 16; // 4
const M_TAIL: usize = M_MATOFF + 4; // bone map size (4), padding amount (1), 4 bounding boxes (128)
const M_VTX: usize = M_TAIL + 133;  // = 641: vertex data of LOD 0
const M_S0: usize = 28;             // stream 0 stride: position Single3 (12) + UV Single4 (16)
const M_S1: usize = 8;              // stream 1 stride: UV Half2 (4) + colour ByteFloat4 (4)
const M_GAP: usize = 4;             // the streams are NOT stored back to back: 4 bytes (symbolic) lie between stream 0 and stream 1
const M_VLEN: usize = 2 * M_S0 + M_GAP + 2 * M_S1; // 76 bytes of vertex data
const M_IDX: usize = M_VTX + M_VLEN; // = 717: index data

fn mput<const N: usize>(buf: &mut [u8; M_TOTAL], off: usize, v: [u8; N]) {
    let mut i = 0;
    while i < N { buf[off + i] = v[i]; i += 1; }
}
fn melement(buf: &mut [u8; M_TOTAL], slot: usize, stream: u8, offset: u8, t: VertexType, u: VertexUsage) {
    let o = M_DECL + slot * 8;
    buf[o] = stream; buf[o + 1] = offset; buf[o + 2] = t as u8; buf[o + 3] = u as u8; buf[o + 4] = 0;
}
fn minimal_model(payload: &[u8; M_VLEN + 6]) -> [u8; M_TOTAL] {
    let mut b = [0u8; M_TOTAL];
    // ---- file header
    mput(&mut b, 0, 0x0100_0005u32.to_le_bytes());
    mput(&mut b, 12, 1u16.to_le_bytes());                 // vertex declaration count
    mput(&mut b, 14, 1u16.to_le_bytes());                 // material count
    mput(&mut b, 16, (M_VTX as u32).to_le_bytes());       // vertex offset LOD 0
    mput(&mut b, 28, (M_IDX as u32).to_le_bytes());       // index offset LOD 0
    mput(&mut b, 40, (M_VLEN as u32).to_le_bytes());      // vertex buffer size LOD 0
    mput(&mut b, 52, 16u32.to_le_bytes());                // index buffer size LOD 0
    b[64] = 1;                                            // lod count
    // ---- vertex declaration
    melement(&mut b, 0, 0, 0, VertexType::Single3, VertexUsage::Position);
    melement(&mut b, 1, 0, 12, VertexType::Single4, VertexUsage::UV);
    melement(&mut b, 2, 1, 0, VertexType::Half2, VertexUsage::UV);
    melement(&mut b, 3, 1, 4, VertexType::ByteFloat4, VertexUsage::Color);
    b[M_DECL + 4 * 8] = 0xFF;
    // ---- strings: "mt\0\0"
    mput(&mut b, M_STR, 1u16.to_le_bytes());
    mput(&mut b, M_STR + 4, 4u32.to_le_bytes());
    b[M_STR + 8] = b'm'; b[M_STR + 9] = b't';
    // ---- model header counts
    mput(&mut b, M_HDR + 4, 1u16.to_le_bytes());          // mesh count
    mput(&mut b, M_HDR + 8, 1u16.to_le_bytes());          // sub-mesh count
    mput(&mut b, M_HDR + 10, 1u16.to_le_bytes());         // material count
    b[M_HDR + 22] = 1;                                    // lod count
    b[M_HDR + 23] = 0x01;                                 // flags1 (a valid tag)
    // ---- LOD 0
    mput(&mut b, M_LODS + 2, 1u16.to_le_bytes());         // mesh count
    mput(&mut b, M_LODS + 44, (M_VLEN as u32).to_le_bytes()); // vertex buffer size
    mput(&mut b, M_LODS + 48, 16u32.to_le_bytes());       // index buffer size
    mput(&mut b, M_LODS + 52, (M_VTX as u32).to_le_bytes());
    mput(&mut b, M_LODS + 56, (M_IDX as u32).to_le_bytes());
    // ---- mesh 0
    mput(&mut b, M_MESH, 2u16.to_le_bytes());             // vertex count
    mput(&mut b, M_MESH + 4, 3u32.to_le_bytes());         // index count
    mput(&mut b, M_MESH + 12, 1u16.to_le_bytes());        // sub-mesh count
    mput(&mut b, M_MESH + 24, ((2 * M_S0 + M_GAP) as u32).to_le_bytes()); // stream 1 offset inside the LOD's vertex data
    b[M_MESH + 32] = M_S0 as u8; b[M_MESH + 33] = M_S1 as u8; b[M_MESH + 35] = 2; // strides, stream count
    // ---- sub-mesh 0: indices 0..3
    mput(&mut b, M_SUB + 4, 3u32.to_le_bytes());
    // ---- symbolic vertex / index buffers
    let mut i = 0;
    while i < M_VLEN { b[M_VTX + i] = payload[i]; i += 1; }
    i = 0;
    while i < 6 { b[M_IDX + i] = payload[M_VLEN + i]; i += 1; }
    b
}

fn mdl_stub_f16_to_f32(i: u16) -> f32 { half::f16::from_bits(i).to_f32_const() }

#[kani::proof]
#[kani::unwind(80)]
#[kani::stub(half::binary16::arch::f16_to_f32, mdl_stub_f16_to_f32)]
fn c06_from_existing_minimal_model() {
    let payload: [u8; M_VLEN + 6] = kani::any();
    let b = minimal_model(&payload);
    let mdl = MDL::from_existing(&b).unwrap();
    assert_eq!(mdl.lods.len(), 1);
    assert_eq!(mdl.lods[0].parts.len(), 1);
    let p = &mdl.lods[0].parts[0];
    assert_eq!(p.vertices.len(), 2);
    let f = |o: usize| u32::from_le_bytes([b[o], b[o + 1], b[o + 2], b[o + 3]]);
    // both vertices (enumerated: the harness carries no assumption, see registry no_cover)
    let mut k = 0;
    while k < 2 {
        let v = &p.vertices[k];
        let s0 = M_VTX + k * M_S0;
        let s1 = M_VTX + 2 * M_S0 + M_GAP + k * M_S1;
        // position: three floats at the start of stream 0
        assert_eq!((v.position[0].to_bits(), v.position[1].to_bits(), v.position[2].to_bits()), (f(s0), f(s0 + 4), f(s0 + 8)));
        // second UV layer: last two floats of the Single4 element
        assert_eq!((v.uv1[0].to_bits(), v.uv1[1].to_bits()), (f(s0 + 20), f(s0 + 24)));
        // first UV layer: overwritten by the Half2 element of stream 1
        let h0 = u16::from_le_bytes([b[s1], b[s1 + 1]]);
        let h1 = u16::from_le_bytes([b[s1 + 2], b[s1 + 3]]);
        if !((h0 & 0x7C00) == 0x7C00 && (h0 & 0x3FF) != 0) {
            assert_eq!(v.uv0[0].to_bits(), crate::verif_support::refs::ref_half_to_f32_bits(h0));
        }
        if !((h1 & 0x7C00) == 0x7C00 && (h1 & 0x3FF) != 0) {
            assert_eq!(v.uv0[1].to_bits(), crate::verif_support::refs::ref_half_to_f32_bits(h1));
        }
        // colour: byte / 255
        assert_eq!(v.color[3].to_bits(), ((b[s1 + 7] as f32) / 255.0).to_bits());
        assert_eq!(v.color[0].to_bits(), ((b[s1 + 4] as f32) / 255.0).to_bits());
        // untouched attributes keep their defaults
        assert_eq!(v.normal[0].to_bits(), 0);
        k += 1;
    }
    // indices, sub-mesh ranges, names, raw streams
    assert_eq!(p.indices.len(), 3);
    assert_eq!(p.indices[0], u16::from_le_bytes([b[M_IDX], b[M_IDX + 1]]));
    assert_eq!(p.indices[2], u16::from_le_bytes([b[M_IDX + 4], b[M_IDX + 5]]));
    assert_eq!(p.submeshes.len(), 1);
    assert_eq!((p.submeshes[0].index_offset, p.submeshes[0].index_count), (0, 3));
    assert_eq!(mdl.material_names.len(), 1);
    assert!(mdl.material_names[0].as_bytes() == b"mt");
    assert_eq!(p.vertex_streams.len(), 2);
    assert_eq!((p.vertex_stream_strides[0], p.vertex_stream_strides[1]), (M_S0, M_S1));
    assert_eq!(p.vertex_streams[0].len(), 2 * M_S0);
    assert_eq!(p.vertex_streams[1].len(), 2 * M_S1);
    let mut z = 0;
    while z < 2 * M_S1 {
        assert_eq!(p.vertex_streams[1][z], b[M_VTX + 2 * M_S0 + M_GAP + z]);
        z += 1;
    }
    core::mem::forget(mdl);
}

/// C18: the same model cut off inside its index buffer (the header still announces the full buffer): parsing returns
/// a failure or a value, it does not panic
fn truncated_model(cut: usize) {
    let payload: [u8; M_VLEN + 6] = kani::any();
    let b = minimal_model(&payload);
    let r = MDL::from_existing(&b[..cut]);
    kani::cover!(r.is_none());
    core::mem::forget(r);
}
#[kani::proof]
#[kani::unwind(80)]
#[kani::stub(half::binary16::arch::f16_to_f32, mdl_stub_f16_to_f32)]
fn c18_model_truncated_in_index_buffer() { truncated_model(M_IDX + 3); }
#[kani::proof]
#[kani::unwind(80)]
#[kani::stub(half::binary16::arch::f16_to_f32, mdl_stub_f16_to_f32)]
fn c18_model_truncated_in_vertex_buffer() { truncated_model(M_VTX + M_S0 + 5); }

// =================================================================================================
// C07: MDL::write_to_buffer on a directly constructed version-5 model with the same shape as the
// generated minimal model above (1 LOD, 1 mesh, 1 sub-mesh, 1 material name, 4 string bytes, no
// bones / shapes): every section at the byte position the format description gives it, every
// vertex element written from its own attribute at vertex_data_offset + stream offset + element
// offset + stride * k, indices behind index_offset + 2 * start_index.
// =================================================================================================
fn w_elem(stream: u8, offset: u8, t: VertexType, u: VertexUsage) -> VertexElement {
    VertexElement { stream, offset, vertex_type: t, vertex_usage: u, usage_index: 0 }
}
fn w_any_vertex() -> Vertex {
    Vertex { position: kani::any(), uv0: kani::any(), uv1: kani::any(), normal: kani::any(), bitangent: kani::any(),
        color: kani::any(), bone_weight: kani::any(), bone_id: kani::any() }
}
struct WShape { s0: usize, s1: usize, nv: usize, start_index: u32 }
impl WShape {
    fn vtx(&self) -> usize { M_VTX }
    fn idx(&self) -> usize { M_VTX + self.nv * self.s0 + self.nv * self.s1 }
}
fn w_model(sh: &WShape, elements: Vec<VertexElement>, verts: Vec<Vertex>, indices: Vec<u16>, version: u32) -> MDL {
    let mut lods = vec![lod0(), lod0(), lod0()];
    lods[0].mesh_count = 1;
    lods[0].vertex_buffer_size = (sh.nv * (sh.s0 + sh.s1)) as u32;
    lods[0].index_buffer_size = 16;
    lods[0].vertex_data_offset = sh.vtx() as u32;
    lods[0].index_data_offset = sh.idx() as u32;
    let mesh = Mesh { vertex_count: sh.nv as u16, index_count: indices.len() as u32, material_index: 0, submesh_index: 0, submesh_count: 1,
        bone_table_index: 0, start_index: sh.start_index, vertex_buffer_offsets: [0, (sh.nv * sh.s0) as u32, 0],
        vertex_buffer_strides: [sh.s0 as u8, sh.s1 as u8, 0], vertex_stream_count: 2 };
    let header = ModelHeader { vertex_declarations: vec![VertexDeclaration { elements }], string_count: 1, string_size: 4, strings: vec![b'm', b't', 0, 0], radius: kani::any(),
        mesh_count: 1, attribute_count: 0, submesh_count: 1, material_count: 1, bone_count: 0, bone_table_count: 0,
        shape_count: 0, shape_mesh_count: 0, shape_value_count: 0, lod_count: 1, flags1: ModelFlags1::ShadowDisabled,
        element_id_count: 0, terrain_shadow_mesh_count: 0, flags2: ModelFlags2::None, model_clip_out_of_distance: 0.0,
        shadow_clip_out_of_distance: 0.0, unknown4: 0, terrain_shadow_submesh_count: 0, unknown5: 0,
        bg_change_material_index: 0, bg_crest_change_material_index: 0, unknown6: 0, unknown7: 0, unknown8: 0, unknown9: kani::any() };
    let mut bb = bbox();
    bb.min = kani::any();
    let mut fog = bbox();
    fog.max = kani::any();
    let model_data = ModelData { header, element_ids: vec![], lods, meshes: vec![mesh], attribute_name_offsets: vec![],
        terrain_shadow_meshes: vec![],
        submeshes: vec![Submesh { index_offset: sh.start_index, index_count: indices.len() as u32, attribute_index_mask: kani::any(), bone_start_index: 0, bone_count: 0 }],
        terrain_shadow_submeshes: vec![], material_name_offsets: vec![0],
        bone_name_offsets: vec![], bone_tables: vec![], bone_tables_v2: vec![], shapes: vec![], shape_meshes: vec![],
        shape_values: vec![], submesh_bone_map_size: 0, submesh_bone_map_size_v2: 0, submesh_bone_map: vec![],
        padding_amount: 0, unknown_padding: vec![], bounding_box: bb, model_bounding_box: bbox(),
        water_bounding_box: bbox(), vertical_fog_bounding_box: fog, bone_bounding_boxes: vec![] };
    let file_header = ModelFileHeader { version, stack_size: 136, runtime_size: (M_VTX - 68 - 136) as u32, vertex_declaration_count: 1,
        material_count: 1, vertex_offsets: [sh.vtx() as u32, 0, 0], index_offsets: [sh.idx() as u32, 0, 0],
        vertex_buffer_size: [(sh.nv * (sh.s0 + sh.s1)) as u32, 0, 0], index_buffer_size: [16, 0, 0], lod_count: 1,
        index_buffer_streaming_enabled: false, has_edge_geometry: false };
    let mut p = part(0);
    p.vertices = verts;
    p.indices = indices;
    MDL { file_header, model_data, lods: vec![Lod { parts: vec![p] }], affected_bone_names: vec![], material_names: vec![] }
}
fn w_f32s<const N: usize>(w: &[u8], off: usize, v: &[f32; N]) {
    let mut i = 0;
    while i < N {
        let got = u32::from_le_bytes([w[off + 4 * i], w[off + 4 * i + 1], w[off + 4 * i + 2], w[off + 4 * i + 3]]);
        assert_eq!(got, v[i].to_bits());
        i += 1;
    }
}
fn w_bytes4(w: &[u8], off: usize, v: [u8; 4]) {
    assert!(w[off] == v[0] && w[off + 1] == v[1] && w[off + 2] == v[2] && w[off + 3] == v[3]);
}
/// the sections in front of the vertex data: file header, declaration, strings, model header, LOD / mesh / sub-mesh tables,
/// material name offsets, bone map size, padding amount, bounding boxes -- `M_VTX` bytes in all
fn w_check_front(mdl: &MDL, w: &[u8], nelem: usize) {
    assert!(w.len() >= M_VTX);
    w_bytes4(w, 0, mdl.file_header.version.to_le_bytes());
    w_bytes4(w, 4, 136u32.to_le_bytes());
    w_bytes4(w, 16, mdl.file_header.vertex_offsets[0].to_le_bytes());
    w_bytes4(w, 28, mdl.file_header.index_offsets[0].to_le_bytes());
    assert_eq!(w[64], 1);
    // declaration: one 8-byte slot per element, then the 0xFF terminator slot
    let d = &mdl.model_data.header.vertex_declarations[0].elements;
    let mut i = 0;
    while i < nelem {
        let o = M_DECL + 8 * i;
        assert!(w[o] == d[i].stream && w[o + 1] == d[i].offset && w[o + 2] == d[i].vertex_type as u8 && w[o + 3] == d[i].vertex_usage as u8);
        i += 1;
    }
    assert_eq!(w[M_DECL + 8 * nelem], 0xFF);
    // strings
    assert!(w[M_STR] == 1 && w[M_STR + 4] == 4 && w[M_STR + 8] == b'm' && w[M_STR + 9] == b't');
    // model header: radius first, unknown9 six bytes before the LOD table
    w_bytes4(w, M_HDR, mdl.model_data.header.radius.to_bits().to_le_bytes());
    assert_eq!(u16::from_le_bytes([w[M_LODS - 8], w[M_LODS - 7]]), mdl.model_data.header.unknown9);
    // LOD 0: vertex / index data offsets at +52 / +56
    w_bytes4(w, M_LODS + 52, (M_VTX as u32).to_le_bytes());
    // mesh 0: strides at +32
    assert!(w[M_MESH + 32] == mdl.model_data.meshes[0].vertex_buffer_strides[0] && w[M_MESH + 35] == 2);
    // sub-mesh 0: attribute mask at +8
    w_bytes4(w, M_SUB + 8, mdl.model_data.submeshes[0].attribute_index_mask.to_le_bytes());
    // tail: 4-byte bone map size (version 5), padding amount, then the four bounding boxes
    w_bytes4(w, M_TAIL, [0, 0, 0, 0]);
    assert_eq!(w[M_TAIL + 4], 0);
    w_f32s(w, M_TAIL + 5, &mdl.model_data.bounding_box.min);
    w_f32s(w, M_TAIL + 5 + 3 * 32 + 16, &mdl.model_data.vertical_fog_bounding_box.max);
}

/// vertex whose raw-copied attributes (position, normal, UVs, bone ids) are symbolic and whose coded attributes
/// (byte-float weights / colour, tangent) are concrete and pairwise distinct, so that the float -> byte conversions
/// fold to constants while a mix-up of attributes or vertices still shows
fn w_mapping_vertex(k: usize) -> Vertex {
    let f = k as f32 * 0.25;
    Vertex { position: kani::any(), uv0: kani::any(), uv1: kani::any(), normal: kani::any(),
        bitangent: [0.5 - f, -0.25 + f, 1.0, if k == 0 { 1.0 } else { -1.0 }],
        color: [0.1 + f, 0.3 + f, 0.5 + f, 0.7],
        bone_weight: [0.2 + f, 0.4, 0.6 - f, 0.05], bone_id: kani::any() }
}

/// float / byte typed elements (declaration A), every attribute value symbolic
#[kani::proof]
#[kani::unwind(140)]
fn c07_write_to_buffer_elements_single() { write_elements_single([w_any_vertex(), w_any_vertex()]); }
/// same shape, coded attributes concrete (see w_mapping_vertex)
#[kani::proof]
#[kani::unwind(140)]
fn c07_write_to_buffer_mapping_single() { write_elements_single([w_mapping_vertex(0), w_mapping_vertex(1)]); }

fn write_elements_single(v: [Vertex; 2]) {
    let sh = WShape { s0: 40, s1: 16, nv: 2, start_index: 1 };
    let elements = vec![
        w_elem(0, 0, VertexType::Single3, VertexUsage::Position),
        w_elem(0, 12, VertexType::Single3, VertexUsage::Normal),
        w_elem(0, 24, VertexType::Single4, VertexUsage::UV),
        w_elem(1, 0, VertexType::ByteFloat4, VertexUsage::BlendWeights),
        w_elem(1, 4, VertexType::Byte4, VertexUsage::BlendIndices),
        w_elem(1, 8, VertexType::ByteFloat4, VertexUsage::Color),
        w_elem(1, 12, VertexType::ByteFloat4, VertexUsage::BiTangent),
    ];
    let idx: [u16; 3] = kani::any();
    let mdl = w_model(&sh, elements, vec![v[0], v[1]], vec![idx[0], idx[1], idx[2]], 0x0100_0005);
    let w = mdl.write_to_buffer().unwrap();
    w_check_front(&mdl, &w, 7);
    assert_eq!(w.len(), sh.idx() + 2 + 6);
    let mut k = 0;
    while k < 2 {
        let s0 = M_VTX + k * sh.s0;
        let s1 = M_VTX + 2 * sh.s0 + k * sh.s1;
        w_f32s(&w, s0, &v[k].position);
        w_f32s(&w, s0 + 12, &v[k].normal);
        w_f32s(&w, s0 + 24, &[v[k].uv0[0], v[k].uv0[1], v[k].uv1[0], v[k].uv1[1]]);
        let mut e = [0u8; 12];
        {
            let mut c = Cursor::new(&mut e[..]);
            MDL::write_byte_float4(&mut c, &v[k].bone_weight).unwrap();
            MDL::write_byte_float4(&mut c, &v[k].color).unwrap();
            MDL::write_tangent(&mut c, &v[k].bitangent).unwrap();
        }
        w_bytes4(&w, s1, [e[0], e[1], e[2], e[3]]);
        w_bytes4(&w, s1 + 4, v[k].bone_id);
        w_bytes4(&w, s1 + 8, [e[4], e[5], e[6], e[7]]);
        w_bytes4(&w, s1 + 12, [e[8], e[9], e[10], e[11]]);
        k += 1;
    }
    let i0 = sh.idx() + 2;
    assert!(u16::from_le_bytes([w[i0], w[i0 + 1]]) == idx[0] && u16::from_le_bytes([w[i0 + 4], w[i0 + 5]]) == idx[2]);
    kani::cover!(true);
    core::mem::forget((mdl, w));
}

fn wstub_f32_to_f16(f: f32) -> u16 { half::f16::from_f32_const(f).to_bits() }

/// half typed elements (declaration B): position / normal padded to four components, UV pairs combined
#[kani::proof]
#[kani::unwind(140)]
#[kani::stub(half::binary16::arch::f32_to_f16, wstub_f32_to_f16)]
fn c07_write_to_buffer_elements_half() {
    let sh = WShape { s0: 16, s1: 8, nv: 2, start_index: 0 };
    let elements = vec![
        w_elem(0, 0, VertexType::Half4, VertexUsage::Position),
        w_elem(0, 8, VertexType::Half4, VertexUsage::Normal),
        w_elem(1, 0, VertexType::Half4, VertexUsage::UV),
    ];
    let v = [w_any_vertex(), w_any_vertex()];
    let idx: [u16; 2] = kani::any();
    let mdl = w_model(&sh, elements, vec![v[0], v[1]], vec![idx[0], idx[1]], 0x0100_0005);
    let w = mdl.write_to_buffer().unwrap();
    w_check_front(&mdl, &w, 3);
    assert_eq!(w.len(), sh.idx() + 4);
    let mut k = 0;
    while k < 2 {
        let s0 = M_VTX + k * sh.s0;
        let s1 = M_VTX + 2 * sh.s0 + k * sh.s1;
        let mut e = [0u8; 24];
        {
            let mut c = Cursor::new(&mut e[..]);
            MDL::write_half4(&mut c, &[v[k].position[0], v[k].position[1], v[k].position[2], 1.0]).unwrap();
            MDL::write_half4(&mut c, &[v[k].normal[0], v[k].normal[1], v[k].normal[2], 0.0]).unwrap();
            MDL::write_half4(&mut c, &[v[k].uv0[0], v[k].uv0[1], v[k].uv1[0], v[k].uv1[1]]).unwrap();
        }
        let mut i = 0;
        while i < 16 { assert_eq!(w[s0 + i], e[i]); i += 1; }
        i = 0;
        while i < 8 { assert_eq!(w[s1 + i], e[16 + i]); i += 1; }
        k += 1;
    }
    kani::cover!(true);
    core::mem::forget((mdl, w));
}
