#![allow(static_mut_refs, unused_imports, dead_code, unused_unsafe)]
// Kani harnesses for src/model_vertex_declarations.rs
use super::*;
use binrw::Endian;
use std::io::Cursor;

fn put_element(buf: &mut [u8], slot: usize, e: &VertexElement) {
    let o = slot * 8;
    buf[o] = e.stream;
    buf[o + 1] = e.offset;
    buf[o + 2] = e.vertex_type as u8;
    buf[o + 3] = e.vertex_usage as u8;
    buf[o + 4] = e.usage_index;
}
fn el(stream: u8, t: VertexType, u: VertexUsage) -> VertexElement {
    // stream and tags are shape (concrete); offset and usage index are symbolic payload
    VertexElement { stream, offset: kani::any(), vertex_type: t, vertex_usage: u, usage_index: kani::any() }
}

/// one declaration = 17 slots of 8 bytes; elements up to the 0xFF terminator are returned as
/// stored, the rest of the 136 bytes is skipped (whatever it holds)
#[kani::proof]
#[kani::unwind(20)]
fn c06_declaration_parse_three_elements() {
    let mut buf: [u8; 136] = kani::any();
    let es = [el(0, VertexType::Single3, VertexUsage::Position), el(0, VertexType::ByteFloat4, VertexUsage::BlendWeights), el(1, VertexType::Half4, VertexUsage::UV)];
    let mut i = 0;
    while i < 3 {
        put_element(&mut buf, i, &es[i]);
        i += 1;
    }
    buf[24] = 0xFF; buf[26] = 0; buf[27] = 0; // terminator slot (its tag bytes must still be valid tags)
    let mut c = Cursor::new(&buf[..]);
    let d = vertex_element_parser(&mut c, Endian::Little, (1,)).unwrap();
    assert_eq!(d.len(), 1);
    assert_eq!(d[0].elements.len(), 3);
    assert!(d[0].elements[0] == es[0] && d[0].elements[1] == es[1] && d[0].elements[2] == es[2]);
    assert_eq!(c.position(), 136);
    kani::cover!(true);
    core::mem::forget(d);
}

/// two declarations: the second starts at byte 136 regardless of the first one's length
#[kani::proof]
#[kani::unwind(20)]
fn c06_declaration_parse_two_declarations() {
    let mut buf = [0u8; 272];
    let a = [el(0, VertexType::Half4, VertexUsage::Position)];
    let b = [el(0, VertexType::Single3, VertexUsage::Position), el(1, VertexType::Byte4, VertexUsage::BlendIndices)];
    put_element(&mut buf, 0, &a[0]);
    buf[8] = 0xFF;
    put_element(&mut buf, 17, &b[0]);
    put_element(&mut buf, 18, &b[1]);
    buf[136 + 16] = 0xFF;
    let mut c = Cursor::new(&buf[..]);
    let d = vertex_element_parser(&mut c, Endian::Little, (2,)).unwrap();
    assert_eq!(d.len(), 2);
    assert!(d[0].elements.len() == 1 && d[0].elements[0] == a[0]);
    assert!(d[1].elements.len() == 2 && d[1].elements[0] == b[0] && d[1].elements[1] == b[1]);
    assert_eq!(c.position(), 272);
    kani::cover!(true);
    core::mem::forget(d);
}

/// writer pads every declaration to 17 slots and the parser reads back what was written
#[kani::proof]
#[kani::unwind(20)]
fn c07_declaration_write_parse_roundtrip() {
    let decls = vec![
        VertexDeclaration { elements: vec![el(0, VertexType::Single3, VertexUsage::Position), el(1, VertexType::Half2, VertexUsage::UV)] },
        VertexDeclaration { elements: vec![el(0, VertexType::Half4, VertexUsage::Position), el(0, VertexType::ByteFloat4, VertexUsage::Normal), el(1, VertexType::ByteFloat4, VertexUsage::Color)] },
    ];
    let mut buf = [0u8; 272];
    let mut w = Cursor::new(&mut buf[..]);
    vertex_element_writer(&decls, &mut w, Endian::Little, ()).unwrap();
    assert_eq!(w.position(), 272);
    assert_eq!(buf[16], 0xFF);
    assert_eq!(buf[136 + 24], 0xFF);
    let mut c = Cursor::new(&buf[..]);
    let back = vertex_element_parser(&mut c, Endian::Little, (2,)).unwrap();
    assert!(back.len() == 2 && back[0] == decls[0] && back[1] == decls[1]);
    assert_eq!(c.position(), 272);
    kani::cover!(true);
    core::mem::forget((decls, back));
}

/// element sizes used for stride computation
#[kani::proof]
fn c06_vertex_type_sizes() {
    assert_eq!(get_vertex_type_size(VertexType::Single1), 4);
    assert_eq!(get_vertex_type_size(VertexType::Single2), 8);
    assert_eq!(get_vertex_type_size(VertexType::Single3), 12);
    assert_eq!(get_vertex_type_size(VertexType::Single4), 16);
    assert_eq!(get_vertex_type_size(VertexType::Byte4), 4);
    assert_eq!(get_vertex_type_size(VertexType::ByteFloat4), 4);
    assert_eq!(get_vertex_type_size(VertexType::Half2), 4);
    assert_eq!(get_vertex_type_size(VertexType::Half4), 8);
    assert_eq!(VERTEX_ELEMENT_SIZE, 8);
    let x: u8 = kani::any();
    kani::cover!(x == 0);
}

/// a declaration that fills all 17 slots before its terminator must be rejected, not crash
#[kani::proof]
#[kani::unwind(22)]
fn c18_declaration_seventeen_elements() {
    let mut buf = [0u8; 18 * 8 + 8];
    let mut i = 0;
    while i < 17 {
        put_element(&mut buf, i, &VertexElement { stream: 0, offset: kani::any(), vertex_type: VertexType::Byte4, vertex_usage: VertexUsage::Color, usage_index: i as u8 });
        i += 1;
    }
    buf[17 * 8] = 0xFF;
    let mut c = Cursor::new(&buf[..]);
    let d = vertex_element_parser(&mut c, Endian::Little, (1,));
    kani::cover!(true);
    core::mem::forget(d);
}

#[kani::proof]
#[kani::unwind(20)]
fn c06d_pipeline_witness() {
    let mut buf = [0u8; 136];
    put_element(&mut buf, 0, &el(0, VertexType::Half4, VertexUsage::Position));
    buf[8] = 0xFF;
    let mut c = Cursor::new(&buf[..]);
    let d = vertex_element_parser(&mut c, Endian::Little, (1,)).unwrap();
    core::mem::forget(d);
    assert!(false);
}
