#![allow(static_mut_refs, unused_imports, dead_code, unused_unsafe)]
// Kani harnesses for src/model_file_operations.rs (typed vertex attribute readers / writers)
use super::*;
use crate::verif_support::refs::ref_half_to_f32_bits;

// `half` dispatches to F16C inline assembly at run time (cpuid), which Kani cannot model; the
// dispatch functions are replaced by the crate's own portable software conversion.
fn stub_f16_to_f32(i: u16) -> f32 { half::f16::from_bits(i).to_f32_const() }
fn stub_f32_to_f16(f: f32) -> u16 { half::f16::from_f32_const(f).to_bits() }

fn rd<'a>(b: &'a [u8]) -> Cursor<ByteSpan<'a>> { Cursor::new(b) }

/// unsigned byte / 255
#[kani::proof]
#[kani::unwind(6)]
fn c06_read_byte_float4() {
    let b: [u8; 4] = kani::any();
    let mut c = rd(&b);
    let f = MDL::read_byte_float4(&mut c).unwrap();
    let i: usize = kani::any();
    kani::assume(i < 4);
    assert_eq!(f[i].to_bits(), ((b[i] as f32) / 255.0).to_bits());
    assert!(f[i] >= 0.0 && f[i] <= 1.0);
    assert_eq!(c.position(), 4);
    kani::cover!(true);
}

/// IEEE half: every one of the 65536 patterns, each component from its own 16 bits
#[kani::proof]
#[kani::unwind(13)]
#[kani::stub(half::binary16::arch::f16_to_f32, stub_f16_to_f32)]
fn c06_read_half4() {
    let b: [u8; 8] = kani::any();
    let mut c = rd(&b);
    let f = MDL::read_half4(&mut c).unwrap();
    let i: usize = kani::any();
    kani::assume(i < 4);
    let h = u16::from_le_bytes([b[2 * i], b[2 * i + 1]]);
    let want = ref_half_to_f32_bits(h);
    if (h & 0x7C00) == 0x7C00 && (h & 0x3FF) != 0 {
        assert!(f[i].is_nan());
    } else {
        assert_eq!(f[i].to_bits(), want);
    }
    assert_eq!(c.position(), 8);
    kani::cover!(true);
}
#[kani::proof]
#[kani::unwind(13)]
#[kani::stub(half::binary16::arch::f16_to_f32, stub_f16_to_f32)]
fn c06_read_half2() {
    let b: [u8; 4] = kani::any();
    let mut c = rd(&b);
    let f = MDL::read_half2(&mut c).unwrap();
    let i: usize = kani::any();
    kani::assume(i < 2);
    let h = u16::from_le_bytes([b[2 * i], b[2 * i + 1]]);
    if !((h & 0x7C00) == 0x7C00 && (h & 0x3FF) != 0) {
        assert_eq!(f[i].to_bits(), ref_half_to_f32_bits(h));
    }
    assert_eq!(c.position(), 4);
    kani::cover!(true);
}

/// raw bytes / floats / shorts: little-endian, in order
#[kani::proof]
#[kani::unwind(10)]
fn c06_read_raw_tuples() {
    let b: [u8; 16] = kani::any();
    let mut c = rd(&b);
    let v = MDL::read_byte4(&mut c).unwrap();
    assert_eq!(v, [b[0], b[1], b[2], b[3]]);
    let mut c = rd(&b);
    let s = MDL::read_single3(&mut c).unwrap();
    assert_eq!(s[0].to_bits(), u32::from_le_bytes([b[0], b[1], b[2], b[3]]));
    assert_eq!(s[1].to_bits(), u32::from_le_bytes([b[4], b[5], b[6], b[7]]));
    assert_eq!(s[2].to_bits(), u32::from_le_bytes([b[8], b[9], b[10], b[11]]));
    assert_eq!(c.position(), 12);
    let mut c = rd(&b);
    let s = MDL::read_single4(&mut c).unwrap();
    assert_eq!(s[3].to_bits(), u32::from_le_bytes([b[12], b[13], b[14], b[15]]));
    assert_eq!(s[0].to_bits(), u32::from_le_bytes([b[0], b[1], b[2], b[3]]));
    let mut c = rd(&b);
    let u = MDL::read_unsigned_short4(&mut c).unwrap();
    assert_eq!(u, [u16::from_le_bytes([b[0], b[1]]), u16::from_le_bytes([b[2], b[3]]), u16::from_le_bytes([b[4], b[5]]), u16::from_le_bytes([b[6], b[7]])]);
    kani::cover!(true);
}

/// tangent / bitangent: byte * 2 / 255 - 1 for x, y, z; handedness w is +1 for 255, -1 otherwise
#[kani::proof]
#[kani::unwind(6)]
fn c06_read_tangent() {
    let b: [u8; 4] = kani::any();
    let mut c = rd(&b);
    let f = MDL::read_tangent(&mut c).unwrap();
    let i: usize = kani::any();
    kani::assume(i < 3);
    assert_eq!(f[i].to_bits(), ((b[i] as f32) * 2.0 / 255.0 - 1.0).to_bits());
    assert!(f[i] >= -1.0 && f[i] <= 1.0);
    assert_eq!(f[3], if b[3] == 255 { 1.0 } else { -1.0 });
    kani::cover!(true);
}

#[kani::proof]
#[kani::unwind(6)]
fn c06_pad_slice() {
    let a: [u32; 3] = kani::any();
    let fill: u32 = kani::any();
    let s = [f32::from_bits(a[0]), f32::from_bits(a[1]), f32::from_bits(a[2])];
    let p = MDL::pad_slice(&s, f32::from_bits(fill));
    assert_eq!(p[0].to_bits(), a[0]);
    assert_eq!(p[1].to_bits(), a[1]);
    assert_eq!(p[2].to_bits(), a[2]);
    assert_eq!(p[3].to_bits(), fill);
    let t = [f32::from_bits(a[0]), f32::from_bits(a[1])];
    let q = MDL::pad_slice(&t, f32::from_bits(fill));
    assert_eq!((q[0].to_bits(), q[1].to_bits(), q[2].to_bits(), q[3].to_bits()), (a[0], a[1], fill, fill));
    kani::cover!(true);
}

// ------------------------------------------------------------------------------- C07 codecs
/// write(read(bytes)) == bytes for every byte quadruple (normalised bytes)
#[kani::proof]
#[kani::unwind(6)]
fn c07_byte_float4_reencode() {
    let b: [u8; 4] = kani::any();
    let mut c = rd(&b);
    let f = MDL::read_byte_float4(&mut c).unwrap();
    let mut out = [0u8; 4];
    let mut w = Cursor::new(&mut out[..]);
    MDL::write_byte_float4(&mut w, &f).unwrap();
    assert_eq!(out, b);
    kani::cover!(true);
}

/// tangents: x, y, z all 256 values; w canonical (0 or 255)
#[kani::proof]
#[kani::unwind(6)]
fn c07_tangent_reencode() {
    let b: [u8; 4] = kani::any();
    kani::assume(b[3] == 0 || b[3] == 255);
    let mut c = rd(&b);
    let f = MDL::read_tangent(&mut c).unwrap();
    let mut out = [0u8; 4];
    let mut w = Cursor::new(&mut out[..]);
    MDL::write_tangent(&mut w, &f).unwrap();
    assert_eq!(out, b);
    kani::cover!(b[3] == 0);
    kani::cover!(b[3] == 255);
}

/// halves: all 63488 non-NaN patterns survive decode + encode
#[kani::proof]
#[kani::unwind(10)]
#[kani::stub(half::binary16::arch::f16_to_f32, stub_f16_to_f32)]
#[kani::stub(half::binary16::arch::f32_to_f16, stub_f32_to_f16)]
fn c07_half4_reencode() {
    let h: u16 = kani::any();
    kani::assume(!((h & 0x7C00) == 0x7C00 && (h & 0x3FF) != 0));
    let hb = h.to_le_bytes();
    let k: u16 = kani::any();
    kani::assume(!((k & 0x7C00) == 0x7C00 && (k & 0x3FF) != 0));
    let kb = k.to_le_bytes();
    let b = [hb[0], hb[1], kb[0], kb[1], hb[0], hb[1], kb[0], kb[1]];
    let mut c = rd(&b);
    let f = MDL::read_half4(&mut c).unwrap();
    let mut out = [0u8; 8];
    let mut w = Cursor::new(&mut out[..]);
    MDL::write_half4(&mut w, &f).unwrap();
    assert_eq!(out, b);
    kani::cover!(true);
}
#[kani::proof]
#[kani::unwind(10)]
#[kani::stub(half::binary16::arch::f16_to_f32, stub_f16_to_f32)]
#[kani::stub(half::binary16::arch::f32_to_f16, stub_f32_to_f16)]
fn c07_half2_reencode() {
    let h: u16 = kani::any();
    kani::assume(!((h & 0x7C00) == 0x7C00 && (h & 0x3FF) != 0));
    let k: u16 = kani::any();
    kani::assume(!((k & 0x7C00) == 0x7C00 && (k & 0x3FF) != 0));
    let (hb, kb) = (h.to_le_bytes(), k.to_le_bytes());
    let b = [hb[0], hb[1], kb[0], kb[1]];
    let mut c = rd(&b);
    let f = MDL::read_half2(&mut c).unwrap();
    let mut out = [0u8; 4];
    let mut w = Cursor::new(&mut out[..]);
    MDL::write_half2(&mut w, &f).unwrap();
    assert_eq!(out, b);
    kani::cover!(true);
}

/// floats and raw bytes are bit-exact
#[kani::proof]
#[kani::unwind(18)]
fn c07_raw_tuples_reencode() {
    let b: [u8; 16] = kani::any();
    let mut c = rd(&b);
    let s4 = MDL::read_single4(&mut c).unwrap();
    let mut out = [0u8; 16];
    let mut w = Cursor::new(&mut out[..]);
    MDL::write_single4(&mut w, &s4).unwrap();
    assert_eq!(out, b);
    let mut c = rd(&b);
    let s3 = MDL::read_single3(&mut c).unwrap();
    let mut out3 = [0u8; 12];
    let mut w = Cursor::new(&mut out3[..]);
    MDL::write_single3(&mut w, &s3).unwrap();
    let mut i = 0;
    while i < 12 { assert_eq!(out3[i], b[i]); i += 1; }
    let mut c = rd(&b);
    let v = MDL::read_byte4(&mut c).unwrap();
    let mut o4 = [0u8; 4];
    let mut w = Cursor::new(&mut o4[..]);
    MDL::write_byte4(&mut w, &v).unwrap();
    assert_eq!(o4, [b[0], b[1], b[2], b[3]]);
    kani::cover!(true);
}

#[kani::proof]
#[kani::unwind(6)]
fn c06m_pipeline_witness() {
    let b: [u8; 4] = kani::any();
    let mut c = rd(&b);
    let _ = MDL::read_byte4(&mut c);
    assert!(false);
}
