#![allow(static_mut_refs, unused_imports, dead_code, unused_unsafe)]
// Kani harnesses for src/mtrl.rs: colour-table and dye-table rows through their real BinRead impls
use super::*;
use crate::verif_support::refs::ref_half_to_f32_bits;

fn stub_f16_to_f32(i: u16) -> f32 { half::f16::from_bits(i).to_f32_const() }

fn h(b: &[u8], k: usize) -> u16 { u16::from_le_bytes([b[2 * k], b[2 * k + 1]]) }
/// `got` is the float of the half stored as the k-th 16-bit word of the row (NaNs: just NaN)
fn is_half(got: f32, b: &[u8], k: usize) -> bool {
    let w = h(b, k);
    if (w & 0x7C00) == 0x7C00 && (w & 0x3FF) != 0 { got.is_nan() } else { got.to_bits() == ref_half_to_f32_bits(w) }
}

/// legacy colour-table row (32 bytes): every component from its own stored half / u16
#[kani::proof]
#[kani::unwind(13)]
#[kani::stub(half::binary16::arch::f16_to_f32, stub_f16_to_f32)]
fn c14_legacy_color_row() {
    let b: [u8; 32] = kani::any();
    let mut c = Cursor::new(&b[..]);
    let r = LegacyColorTableRow::read_le(&mut c).unwrap();
    assert_eq!(c.position(), 32);
    assert!(is_half(r.diffuse_color[0], &b, 0) && is_half(r.diffuse_color[1], &b, 1) && is_half(r.diffuse_color[2], &b, 2));
    assert!(is_half(r.specular_strength, &b, 3));
    assert!(is_half(r.specular_color[0], &b, 4) && is_half(r.specular_color[1], &b, 5) && is_half(r.specular_color[2], &b, 6));
    assert!(is_half(r.gloss_strength, &b, 7));
    assert!(is_half(r.emissive_color[0], &b, 8) && is_half(r.emissive_color[1], &b, 9) && is_half(r.emissive_color[2], &b, 10));
    assert_eq!(r.tile_set, h(&b, 11));
    assert!(is_half(r.material_repeat[0], &b, 12) && is_half(r.material_repeat[1], &b, 13));
    assert!(is_half(r.material_skew[0], &b, 14) && is_half(r.material_skew[1], &b, 15));
    kani::cover!(true);
}

/// Dawntrail colour-table row (64 bytes)
#[kani::proof]
#[kani::unwind(13)]
#[kani::stub(half::binary16::arch::f16_to_f32, stub_f16_to_f32)]
fn c14_dawntrail_color_row() {
    let b: [u8; 64] = kani::any();
    let mut c = Cursor::new(&b[..]);
    let r = DawntrailColorTableRow::read_le(&mut c).unwrap();
    assert_eq!(c.position(), 64);
    assert!(is_half(r.diffuse_color[0], &b, 0) && is_half(r.diffuse_color[1], &b, 1) && is_half(r.diffuse_color[2], &b, 2));
    assert!(is_half(r.unknown1, &b, 3));
    assert!(is_half(r.specular_color[0], &b, 4) && is_half(r.specular_color[1], &b, 5) && is_half(r.specular_color[2], &b, 6));
    assert!(is_half(r.unknown2, &b, 7));
    assert!(is_half(r.emissive_color[0], &b, 8) && is_half(r.emissive_color[1], &b, 9) && is_half(r.emissive_color[2], &b, 10));
    assert!(is_half(r.unknown3, &b, 11));
    assert!(is_half(r.sheen_rate, &b, 12) && is_half(r.sheen_tint, &b, 13) && is_half(r.sheen_aperture, &b, 14) && is_half(r.unknown4, &b, 15));
    assert!(is_half(r.roughness, &b, 16) && is_half(r.unknown5, &b, 17) && is_half(r.metalness, &b, 18) && is_half(r.anisotropy, &b, 19));
    assert!(is_half(r.unknown6, &b, 20) && is_half(r.sphere_mask, &b, 21) && is_half(r.unknown7, &b, 22) && is_half(r.unknown8, &b, 23));
    assert_eq!(r.shader_index, h(&b, 24));
    assert_eq!(r.tile_set, h(&b, 25));
    assert!(is_half(r.tile_alpha, &b, 26));
    assert_eq!(r.sphere_index, h(&b, 27));
    assert!(is_half(r.material_repeat[0], &b, 28) && is_half(r.material_repeat[1], &b, 29));
    assert!(is_half(r.material_skew[0], &b, 30) && is_half(r.material_skew[1], &b, 31));
    kani::cover!(true);
}

/// dye rows: template / channel / flag bit fields for every stored word
#[kani::proof]
#[kani::unwind(6)]
fn c14_dye_rows() {
    let b: [u8; 4] = kani::any();
    let mut c = Cursor::new(&b[..]);
    let l = LegacyColorDyeTableRow::read_le(&mut c).unwrap();
    assert_eq!(c.position(), 2);
    let d = u16::from_le_bytes([b[0], b[1]]);
    assert_eq!(l.template, d >> 5);
    assert_eq!((l.diffuse, l.specular, l.emissive, l.gloss, l.specular_strength), (d & 1 != 0, d & 2 != 0, d & 4 != 0, d & 8 != 0, d & 16 != 0));
    let mut c = Cursor::new(&b[..]);
    let n = DawntrailColorDyeTableRow::read_le(&mut c).unwrap();
    assert_eq!(c.position(), 4);
    let w = u32::from_le_bytes(b);
    assert_eq!(n.template as u32, (w >> 16) & 0x7FF);
    assert_eq!(n.channel as u32, (w >> 27) & 3);
    assert_eq!((n.diffuse, n.specular, n.emissive, n.scalar3), (w & 1 != 0, w & 2 != 0, w & 4 != 0, w & 8 != 0));
    assert_eq!((n.metalness, n.roughness, n.sheen_rate, n.sheen_tint_rate), (w & 0x10 != 0, w & 0x20 != 0, w & 0x40 != 0, w & 0x80 != 0));
    assert_eq!((n.sheen_aperture, n.anisotropy, n.sphere_map_index, n.sphere_map_mask), (w & 0x100 != 0, w & 0x200 != 0, w & 0x400 != 0, w & 0x800 != 0));
    kani::cover!(true);
}

/// which dye table a material carries is chosen by its table-dimension byte: 0 = legacy (16 rows of
/// 2 bytes), 0x50..=0x5F = Dawntrail (32 rows of 4 bytes), anything else = opaque (nothing read)
fn dye_kind(logs: u8) {
    let b: [u8; 132] = kani::any();
    let mut c = Cursor::new(&b[..]);
    let t = parse_color_dye_table(&mut c, binrw::Endian::Little, (logs,)).unwrap();
    let want_dawntrail = logs >= 0x50 && logs <= 0x5F;
    match t {
        Some(ColorDyeTable::DawntrailColorDyeTable(t)) => {
            assert!(want_dawntrail);
            assert_eq!(t.rows.len(), 32);
            let w = u32::from_le_bytes([b[124], b[125], b[126], b[127]]);
            assert_eq!(t.rows[31].template as u32, (w >> 16) & 0x7FF);
            assert_eq!(c.position(), 128);
            core::mem::forget(t);
        }
        Some(ColorDyeTable::LegacyColorDyeTable(t)) => {
            assert!(logs == 0);
            assert_eq!(t.rows.len(), 16);
            assert_eq!(c.position(), 32);
            core::mem::forget(t);
        }
        Some(ColorDyeTable::OpaqueColorDyeTable(_)) => {
            assert!(!want_dawntrail && logs != 0);
            assert_eq!(c.position(), 0);
        }
        None => panic!("a dye table kind is always selected"),
    }
    kani::cover!(true);
}
#[kani::proof]
#[kani::unwind(40)]
fn c14_dye_table_kind_5f() { dye_kind(0x5F); }
#[kani::proof]
#[kani::unwind(40)]
fn c14_dye_table_kind_50() { dye_kind(0x50); }
#[kani::proof]
#[kani::unwind(40)]
fn c14_dye_table_kind_legacy() { dye_kind(0); }
#[kani::proof]
#[kani::unwind(40)]
fn c14_dye_table_kind_opaque() { dye_kind(0x42); }

#[kani::proof]
#[kani::unwind(6)]
fn c14m_pipeline_witness() {
    let b: [u8; 4] = kani::any();
    let mut c = Cursor::new(&b[..]);
    let _ = LegacyColorDyeTableRow::read_le(&mut c).unwrap();
    assert!(false);
}

// =================================================================================================
// C14: Material::from_existing on a generated minimal material without colour / dye tables:
// 1 texture path, shader package name, 1 shader key, 1 constant of two floats, 1 sampler.
// Counts, string table and the constant's offset / size are concrete; key, constant id, float
// bit patterns and the sampler's flag / index bytes are symbolic.
// =================================================================================================
const MT_TOTAL: usize = 16 + 4 + 16 + 4 + 12 + 8 + 8 + 12 + 8; // 88
#[kani::proof]
#[kani::unwind(20)]
#[kani::stub(core::str::validations::run_utf8_validation, crate::verif_support::refs::ascii_utf8_validation)]
fn c14_material_from_existing_minimal() { minimal_material(4); }
/// C18: the same material with fewer than four bytes of additional data (older materials store none; the field is
/// padded to four bytes either way): parsing must not crash
#[kani::proof]
#[kani::unwind(20)]
#[kani::stub(core::str::validations::run_utf8_validation, crate::verif_support::refs::ascii_utf8_validation)]
fn c18_material_without_additional_data() { minimal_material(0); }
#[kani::proof]
#[kani::unwind(20)]
#[kani::stub(core::str::validations::run_utf8_validation, crate::verif_support::refs::ascii_utf8_validation)]
fn c18_material_with_two_bytes_of_additional_data() { minimal_material(2); }

/// two texture paths, the first containing a byte >= 0x80 (Shift-JIS / Latin-1 names occur in old materials): the second
/// path and the package name still start where the string table puts them (each path ends at ITS OWN terminator byte;
/// how the high byte itself is rendered is left unconstrained)
#[kani::proof]
#[kani::unwind(20)]
#[kani::stub(core::str::validations::run_utf8_validation, crate::verif_support::refs::ascii_utf8_validation)]
fn c14_material_two_textures_high_byte() {
    const TOTAL: usize = MT_TOTAL + 4;
    let mut b: [u8; TOTAL] = kani::any();
    let put16 = |b: &mut [u8; TOTAL], o: usize, v: u16| { let x = v.to_le_bytes(); b[o] = x[0]; b[o + 1] = x[1]; };
    let put32 = |b: &mut [u8; TOTAL], o: usize, v: u32| { let x = v.to_le_bytes(); b[o] = x[0]; b[o + 1] = x[1]; b[o + 2] = x[2]; b[o + 3] = x[3]; };
    let le32 = |b: &[u8; TOTAL], o: usize| u32::from_le_bytes([b[o], b[o + 1], b[o + 2], b[o + 3]]);
    put16(&mut b, 8, 16); put16(&mut b, 10, 13);
    b[12] = 2; b[13] = 0; b[14] = 0; b[15] = 4;
    // 16: texture offset table (2 entries, symbolic); 24: strings
    let strings = b"t\xE9.tex\0u.tex\0sh\0";
    let mut i = 0;
    while i < 16 { b[24 + i] = strings[i]; i += 1; }
    put32(&mut b, 40, 0);
    put16(&mut b, 44, 8); put16(&mut b, 46, 1); put16(&mut b, 48, 1); put16(&mut b, 50, 1);
    put16(&mut b, 68, 0); put16(&mut b, 70, 8);
    put32(&mut b, 72, 0x213CB439);
    let m = Material::from_existing(&b).unwrap();
    assert_eq!(m.texture_paths.len(), 2);
    assert!(m.texture_paths[1].as_bytes() == b"u.tex");
    assert!(m.shader_package_name.as_bytes() == b"sh");
    assert!(m.texture_paths[0].as_bytes()[0] == b't');
    assert_eq!(m.shader_keys.len(), 1);
    assert_eq!((m.shader_keys[0].category, m.shader_keys[0].value), (le32(&b, 56), le32(&b, 60)));
    assert_eq!(m.constants[0].id, le32(&b, 64));
    kani::cover!(true);
    core::mem::forget(m);
}

fn minimal_material(additional: u8) { material_case::<0, { MT_TOTAL }>(additional, 0); }

/// DYE = size of the dye table stored behind the table flags; TOTAL = MT_TOTAL + DYE
fn material_case<const DYE: usize, const TOTAL: usize>(additional: u8, flags: u32) {
    let mut b: [u8; TOTAL] = kani::any();
    let put16 = |b: &mut [u8; TOTAL], o: usize, v: u16| { let x = v.to_le_bytes(); b[o] = x[0]; b[o + 1] = x[1]; };
    let put32 = |b: &mut [u8; TOTAL], o: usize, v: u32| { let x = v.to_le_bytes(); b[o] = x[0]; b[o + 1] = x[1]; b[o + 2] = x[2]; b[o + 3] = x[3]; };
    let le32 = |b: &[u8; TOTAL], o: usize| u32::from_le_bytes([b[o], b[o + 1], b[o + 2], b[o + 3]]);
    // file header: version, file size, data set size (symbolic), string table size, package name offset, counts
    put16(&mut b, 8, 16); put16(&mut b, 10, 8);
    b[12] = 1; b[13] = 0; b[14] = 0; b[15] = additional;      // 1 texture, no uv / colour sets, 4 (or fewer) bytes of additional data
    // 16: texture offset table (1 entry, symbolic); 20: strings
    let strings = b"t/a.tex\0sh.shpk\0";
    let mut i = 0;
    while i < 16 { b[20 + i] = strings[i]; i += 1; }
    put32(&mut b, 36, flags);                                  // table flags
    // 40: material header: value list size 8, 1 key, 1 constant, 1 sampler, flags (symbolic)
    put16(&mut b, 40 + DYE, 8); put16(&mut b, 42 + DYE, 1); put16(&mut b, 44 + DYE, 1); put16(&mut b, 46 + DYE, 1);
    // 52: shader key (category, value) symbolic; 60: constant (id symbolic, offset 0, size 8)
    put16(&mut b, 64 + DYE, 0); put16(&mut b, 66 + DYE, 8);
    // 68: sampler: usage tag (concrete: Sampler0), flags, index, 3 unknown bytes (symbolic)
    put32(&mut b, 68 + DYE, 0x213CB439);
    // 80: two floats (symbolic)
    let m = Material::from_existing(&b).unwrap();
    assert!(m.shader_package_name.as_bytes() == b"sh.shpk");
    assert_eq!(m.texture_paths.len(), 1);
    assert!(m.texture_paths[0].as_bytes() == b"t/a.tex");
    assert_eq!(m.shader_keys.len(), 1);
    assert_eq!((m.shader_keys[0].category, m.shader_keys[0].value), (le32(&b, 52 + DYE), le32(&b, 56 + DYE)));
    assert_eq!(m.constants.len(), 1);
    assert_eq!((m.constants[0].id, m.constants[0].num_values), (le32(&b, 60 + DYE), 2));
    assert_eq!((m.constants[0].values[0].to_bits(), m.constants[0].values[1].to_bits()), (le32(&b, 80 + DYE), le32(&b, 84 + DYE)));
    assert_eq!((m.constants[0].values[2].to_bits(), m.constants[0].values[3].to_bits()), (0, 0));
    assert_eq!(m.samplers.len(), 1);
    assert!(matches!(m.samplers[0].texture_usage, TextureUsage::Sampler0));
    assert_eq!((m.samplers[0].flags, m.samplers[0].texture_index, m.samplers[0].unknown3), (le32(&b, 72 + DYE), b[76 + DYE], b[79 + DYE]));
    assert!(m.color_table.is_none());
    if DYE == 0 {
        assert!(m.color_dye_table.is_none());
    } else {
        // 32 rows of one u32 each, stored right behind the table flags
        match &m.color_dye_table {
            Some(ColorDyeTable::DawntrailColorDyeTable(t)) => {
                assert_eq!(t.rows.len(), 32);
                assert_eq!(DYE, 128);
            }
            _ => panic!("wrong dye table kind"),
        }
    }
    kani::cover!(true);
    core::mem::forget(m);
}

/// C14: a material whose table flags announce a dye table with dimension logs 0x5F (the upper end of the Dawntrail
/// range) and no colour table: the 32-row dye table is read from behind the flags and everything after it keeps its place
#[kani::proof]
#[kani::unwind(40)]
#[kani::stub(core::str::validations::run_utf8_validation, crate::verif_support::refs::ascii_utf8_validation)]
fn c14_material_with_dawntrail_dye_table_5f() { material_case::<128, { MT_TOTAL + 128 }>(4, 0x5F8); }

