#![allow(static_mut_refs, unused_imports, dead_code, unused_unsafe)]
// Kani harnesses for src/patch.rs: decoding of ZiPatch commands (wire format: big-endian fields,
// block quantities in units of 128 bytes), at concrete layouts with symbolic field bytes.
use super::*;
use std::io::Cursor;

fn be16(b: &[u8], o: usize) -> u16 { u16::from_be_bytes([b[o], b[o + 1]]) }
fn be32(b: &[u8], o: usize) -> u32 { u32::from_be_bytes([b[o], b[o + 1], b[o + 2], b[o + 3]]) }
fn be64(b: &[u8], o: usize) -> u64 { ((be32(b, o) as u64) << 32) | be32(b, o + 4) as u64 }

/// SQPK 'A' (add data): 3 reserved, main id, sub id, file id, block offset, byte count and delete
/// count (each a big-endian u32 in units of 128 bytes), then exactly `count * 128` payload bytes
#[kani::proof]
#[kani::unwind(140)]
fn c03_sqpk_add_data_fields() {
    let mut b: [u8; 23 + 128] = kani::any();
    // payload size is shape: one unit of 128 bytes
    b[15] = 0; b[16] = 0; b[17] = 0; b[18] = 1;
    let mut c = Cursor::new(&b[..]);
    let d = SqpkAddData::read(&mut c).unwrap();
    assert_eq!(d.main_id, be16(&b, 3));
    assert_eq!(d.sub_id, be16(&b, 5));
    assert_eq!(d.file_id, be32(&b, 7));
    assert_eq!(d.block_offset, (be32(&b, 11) as u64) * 128);
    assert_eq!(d.block_number, 128);
    assert_eq!(d.block_delete_number, (be32(&b, 19) as u64) * 128);
    assert_eq!(d.block_data.len(), 128);
    let k: usize = kani::any();
    kani::assume(k < 128);
    assert_eq!(d.block_data[k], b[23 + k]);
    assert_eq!(c.position(), 23 + 128);
    kani::cover!(true);
    core::mem::forget(d);
}

/// SQPK 'D' / 'E' (delete / expand): block offset in units of 128, raw block count, 4 reserved
#[kani::proof]
#[kani::unwind(10)]
fn c03_sqpk_delete_data_fields() {
    let b: [u8; 23] = kani::any();
    let mut c = Cursor::new(&b[..]);
    let d = SqpkDeleteData::read(&mut c).unwrap();
    assert_eq!(d.main_id, be16(&b, 3));
    assert_eq!(d.sub_id, be16(&b, 5));
    assert_eq!(d.file_id, be32(&b, 7));
    assert_eq!(d.block_offset, (be32(&b, 11) as u64) * 128);
    assert_eq!(d.block_number, be32(&b, 15));
    assert_eq!(c.position(), 23);
    kani::cover!(true);
}

/// SQPK 'T' (target info): 3 reserved bytes, platform as a big-endian u16, region (i16),
/// debug flag (u16), version (u16), two little-endian u64, 96 reserved bytes
fn target_info_platform(platform_code: u16) {
    let mut b: [u8; 27 + 96] = kani::any();
    let pc = platform_code.to_be_bytes();
    b[3] = pc[0];
    b[4] = pc[1];
    b[5] = 0xFF; b[6] = 0xFF; // region Global (-1)
    let mut c = Cursor::new(&b[..]);
    let t = SqpkTargetInfo::read(&mut c).unwrap();
    assert_eq!(t.platform as u16, platform_code);
    assert!(t.region == Region::Global);
    assert_eq!(t.is_debug, be16(&b, 7) == 1);
    assert_eq!(t.version, be16(&b, 9));
    assert_eq!(t.deleted_data_size, u64::from_le_bytes([b[11], b[12], b[13], b[14], b[15], b[16], b[17], b[18]]));
    assert_eq!(t.seek_count, u64::from_le_bytes([b[19], b[20], b[21], b[22], b[23], b[24], b[25], b[26]]));
    assert_eq!(c.position(), 27 + 96);
    kani::cover!(true);
}
#[kani::proof]
#[kani::unwind(10)]
fn c03_sqpk_target_info_win32() { target_info_platform(0); }
#[kani::proof]
#[kani::unwind(10)]
fn c03_sqpk_target_info_ps3() { target_info_platform(1); }
#[kani::proof]
#[kani::unwind(10)]
fn c03_sqpk_target_info_ps4() { target_info_platform(2); }

/// SQPK 'I' (index) and 'X' (patch info)
#[kani::proof]
#[kani::unwind(10)]
fn c03_sqpk_index_and_patch_info() {
    let mut b: [u8; 27] = kani::any();
    b[0] = b'D';
    let mut c = Cursor::new(&b[..]);
    let i = SqpkIndex::read(&mut c).unwrap();
    assert!(i.command == SqpkIndexCommand::Delete);
    assert_eq!(i.is_synonym, b[1] == 1);
    assert_eq!(i.file_hash, be64(&b, 3));
    assert_eq!(i.block_offset, be32(&b, 11));
    assert_eq!(i.block_number, be32(&b, 15));
    assert_eq!(c.position(), 27);
    let mut c = Cursor::new(&b[..]);
    let x = SqpkPatchInfo::read_be(&mut c).unwrap();
    assert_eq!((x.status, x.version), (b[0], b[1]));
    assert_eq!(x.install_size, be64(&b, 3));
    assert_eq!(c.position(), 11);
    kani::cover!(true);
}

/// SQPK 'F' (file operation): operation letter, 2 reserved, offset, size, path length (incl. NUL),
/// expansion id, 2 reserved, path
fn file_operation(letter: u8) {
    let mut b: [u8; 24 + 8] = kani::any();
    b[0] = letter;
    b[19] = 0; b[20] = 0; b[21] = 0; b[22] = 8; // path length 8 = "ab/c.de" + NUL
    let path = b"ab/c.de\0";
    let mut i = 0;
    while i < 8 { b[27 + i - 3] = path[i]; i += 1; }
    let mut c = Cursor::new(&b[..]);
    let f = SqpkFileOperationData::read(&mut c).unwrap();
    let want = match letter { b'A' => SqpkFileOperation::AddFile, b'R' => SqpkFileOperation::RemoveAll, b'D' => SqpkFileOperation::DeleteFile, _ => SqpkFileOperation::MakeDirTree };
    assert!(f.operation == want);
    assert_eq!(f.offset, be64(&b, 3));
    assert_eq!(f.file_size, be64(&b, 11));
    assert_eq!(f.expansion_id, be16(&b, 23 - 0));
    assert!(f.path.as_bytes() == b"ab/c.de");
    assert_eq!(c.position(), 32);
    kani::cover!(true);
    core::mem::forget(f);
}
#[kani::proof]
#[kani::unwind(12)]
#[kani::stub(core::str::validations::run_utf8_validation, crate::verif_support::refs::ascii_utf8_validation)]
fn c03_sqpk_file_operation_add() { file_operation(b'A'); }
#[kani::proof]
#[kani::unwind(12)]
#[kani::stub(core::str::validations::run_utf8_validation, crate::verif_support::refs::ascii_utf8_validation)]
fn c03_sqpk_file_operation_delete() { file_operation(b'D'); }

/// chunk framing: big-endian size, 4-byte tag, body, trailing CRC (none after EOF_)
#[kani::proof]
#[kani::unwind(12)]
fn c03_chunk_framing_eof_and_apply() {
    let mut b: [u8; 8] = kani::any();
    b[4] = b'E'; b[5] = b'O'; b[6] = b'F'; b[7] = b'_';
    let mut c = Cursor::new(&b[..]);
    let ch = PatchChunk::read(&mut c).unwrap();
    assert_eq!(ch.size, be32(&b, 0));
    assert!(ch.chunk_type == ChunkType::EndOfFile);
    assert_eq!(c.position(), 8);
    core::mem::forget(ch);
    let mut a: [u8; 24] = kani::any();
    a[4] = b'A'; a[5] = b'P'; a[6] = b'L'; a[7] = b'Y';
    a[8] = 0; a[9] = 0; a[10] = 0; a[11] = 2; // option IgnoreOldMismatch
    let mut c = Cursor::new(&a[..]);
    let ch = PatchChunk::read(&mut c).unwrap();
    assert_eq!(ch.size, be32(&a, 0));
    match &ch.chunk_type {
        ChunkType::ApplyOption(o) => {
            assert!(o.option == ApplyOption::IgnoreOldMismatch);
            assert_eq!(o.value, be32(&a, 16));
        }
        _ => panic!("wrong chunk kind"),
    }
    assert_eq!(ch.crc32, u32::from_le_bytes([a[20], a[21], a[22], a[23]]));
    assert_eq!(c.position(), 24);
    kani::cover!(true);
    core::mem::forget(ch);
}

#[kani::proof]
#[kani::unwind(10)]
fn c03p_pipeline_witness() {
    let b: [u8; 23] = kani::any();
    let mut c = Cursor::new(&b[..]);
    let _ = SqpkDeleteData::read(&mut c).unwrap();
    assert!(false);
}

// =================================================================================================
// C03: the two file-writing kernels of ZiPatch::apply (delete / expand and the zero-fill after add),
// run over the in-memory file model (support/memfs.rs, wired in through registry.TRANSFORMS).
// Whole-`apply` harnesses follow further down (session 3); see DESIGN.md section 4 for which of them decide.
// =================================================================================================
use crate::verif_support::memfs;

/// the empty-block header written by delete / expand: block size 128, 0, 0, block count - 1, 0 (little-endian i32 each)
fn empty_block_byte(k: usize, blocks: u64) -> u8 {
    if k < 4 { 128u32.to_le_bytes()[k] } else if k >= 12 && k < 16 { ((blocks - 1) as u32).to_le_bytes()[k - 12] } else { 0 }
}

/// `write_empty_file_block_at(file, offset, n)`: the n x 128 bytes from `offset` become an empty-block header followed
/// by zeros; every other byte of the file keeps its value and the file only grows when the range ends behind its end.
/// Offset and block count are concrete per instance (a symbolic-size bulk write into the file model did not decide
/// in 900 s); the previous file content (512 bytes) is symbolic.
fn empty_block_case(units: u64, blocks: u64) {
    memfs::reset();
    let old: [u8; 512] = kani::any();
    memfs::add_file("/g/d.dat0", &old);
    let f = OpenOptions::new().write(true).create(true).truncate(false).open("/g/d.dat0").unwrap();
    let offset = units * 128;
    let r = write_empty_file_block_at(&f, offset, blocks);
    assert!(r.is_ok());
    assert!(!memfs::limit_hit());
    let slot = memfs::find("/g/d.dat0").unwrap();
    let start = offset as usize;
    let end = start + blocks as usize * 128;
    assert_eq!(memfs::file_len(slot), if end > 512 { end } else { 512 });
    let k: usize = kani::any();
    kani::assume(k < memfs::file_len(slot));
    let want = if k >= start && k < start + 20 { empty_block_byte(k - start, blocks) } else if k >= start && k < end { 0 } else if k < 512 { old[k] } else { 0 };
    assert_eq!(memfs::file_byte(slot, k), want);
    assert_eq!(memfs::file_count(), 1);
    kani::cover!(k == start + 12);
    kani::cover!(k + 1 == memfs::file_len(slot));
}
#[kani::proof]
#[kani::unwind(70)]
fn c03_empty_block_at0_1block() { empty_block_case(0, 1); }
#[kani::proof]
#[kani::unwind(70)]
fn c03_empty_block_at2_2blocks() { empty_block_case(2, 2); }
#[kani::proof]
#[kani::unwind(70)]
fn c03_empty_block_at3_3blocks_grows_file() { empty_block_case(3, 3); }
#[kani::proof]
#[kani::unwind(70)]
fn c03_empty_block_behind_end_leaves_gap() { empty_block_case(5, 1); }

/// `wipe(file, n)` writes n zero bytes at the current position and nothing else (position / length concrete per instance)
fn wipe_case(pos: u64, n: usize) {
    memfs::reset();
    let old: [u8; 300] = kani::any();
    memfs::add_file("/g/w", &old);
    let f = OpenOptions::new().write(true).create(true).truncate(false).open("/g/w").unwrap();
    (&f).seek(SeekFrom::Start(pos)).unwrap();
    assert!(wipe(&f, n).is_ok());
    assert!(!memfs::limit_hit());
    let slot = memfs::find("/g/w").unwrap();
    let (p, e) = (pos as usize, pos as usize + n);
    assert_eq!(memfs::file_len(slot), if n > 0 && e > 300 { e } else { 300 });
    let k: usize = kani::any();
    kani::assume(k < memfs::file_len(slot));
    let want = if k >= p && k < e { 0 } else if k < 300 { old[k] } else { 0 };
    assert_eq!(memfs::file_byte(slot, k), want);
    kani::cover!(true);
}
#[kani::proof]
#[kani::unwind(70)]
fn c03_wipe_inside_file() { wipe_case(17, 130); }
#[kani::proof]
#[kani::unwind(70)]
fn c03_wipe_nothing() { wipe_case(40, 0); }
#[kani::proof]
#[kani::unwind(70)]
fn c03_wipe_across_end() { wipe_case(250, 256); }

// =================================================================================================
// C03: ZiPatch::apply over the in-memory file system model (support/memfs.rs, wired in through
// registry.TRANSFORMS) and the format! engine model.  The patch is assembled byte by byte: chunk
// kinds, ids and lengths are concrete (shape), offsets / counts / payload bytes symbolic.
// =================================================================================================
use crate::verif_support::refs::{ascii_utf8_validation, naive_memchr, naive_memrchr};

struct PB;
impl PB {
    fn new() -> Self {
        memfs::patch_begin("p.patch");
        let mut p = PB;
        p.put(&[0x91, b'Z', b'I', b'P', b'A', b'T', b'C', b'H', 0x0d, 0x0a, 0x1a, 0x0a]);
        p
    }
    fn put(&mut self, x: &[u8]) { let mut i = 0; while i < x.len() { memfs::patch_push(x[i]); i += 1; } }
    /// SQPK chunk: size, "SQPK", inner size, command letter, body, CRC (sizes and CRC are not interpreted by apply)
    fn sqpk(&mut self, op: u8, body: &[u8]) {
        self.put(&((body.len() as u32 + 5).to_be_bytes()));
        self.put(b"SQPK");
        self.put(&((body.len() as u32 + 5).to_be_bytes()));
        self.put(&[op]);
        self.put(body);
        self.put(&[0xde, 0xad, 0xbe, 0xef]);
    }
    fn eof(&mut self) { self.put(&[0, 0, 0, 0]); self.put(b"EOF_"); }
    fn install(&self) {}
}
fn target_info_body(platform: u8) -> [u8; 123] {
    let mut t = [0u8; 123];
    t[4] = platform;
    t[5] = 0xFF; t[6] = 0xFF; // region Global
    t
}
/// 'D' / 'E' body: 3 reserved, main id, sub id, file id, block offset (units of 128), block count, 4 reserved
fn delete_body(main_id: u16, sub_id: u16, file_id: u32, offset_units: u32, blocks: u32) -> [u8; 23] {
    let mut d = [0u8; 23];
    let (m, s, f, o, n) = (main_id.to_be_bytes(), sub_id.to_be_bytes(), file_id.to_be_bytes(), offset_units.to_be_bytes(), blocks.to_be_bytes());
    d[3] = m[0]; d[4] = m[1]; d[5] = s[0]; d[6] = s[1];
    let mut i = 0;
    while i < 4 { d[7 + i] = f[i]; d[11 + i] = o[i]; d[15 + i] = n[i]; i += 1; }
    d
}

/// SQPK 'D' / 'E' through the whole of `ZiPatch::apply`: offset, block count and ids are concrete per instance (shape),
/// the platform comes from the preceding 'T' command, the previous contents of the data file (when it exists), the
/// reserved / CRC bytes of the commands are symbolic.  Afterwards exactly one file exists, it carries the name built
/// from (category, expansion, chunk, platform, data file number), the `blocks` x 128 bytes from 128 x `off` are an
/// empty-block header followed by zeros, and every other byte keeps its previous value.
fn apply_delete_or_expand(op: u8, platform: u8, name: &str, off: u32, blocks: u32, existing: usize) {
    memfs::reset();
    let old: [u8; 640] = kani::any();
    if existing > 0 { memfs::add_file(name, &old[..existing]); }
    let mut p = PB::new();
    let mut t = target_info_body(platform);
    // (the debug flag stays concrete: Option<SqpkTargetInfo> keeps its discriminant in that bool's spare values, and a symbolic
    // flag turns `target_info.as_ref().unwrap()` into an if-then-else pointer)
    t[0] = kani::any(); t[9] = kani::any(); t[10] = kani::any(); t[60] = kani::any();
    p.sqpk(b'T', &t);
    let mut d = delete_body(0x0a, 0x0102, 3, off, blocks);
    d[0] = kani::any(); d[2] = kani::any(); d[19] = kani::any(); d[22] = kani::any();
    p.sqpk(op, &d);
    p.eof();
    p.install();
    let r = ZiPatch::apply("/g", "p.patch");
    assert!(r.is_ok());
    assert!(!memfs::limit_hit());
    let slot = memfs::find(name).expect("data file named by category / expansion / chunk / platform / file number");
    assert_eq!(memfs::file_count(), 1);
    let start = off as usize * 128;
    let end = start + blocks as usize * 128;
    assert_eq!(memfs::file_len(slot), if end > existing { end } else { existing });
    let k: usize = kani::any();
    kani::assume(k < memfs::file_len(slot));
    let want = if k >= start && k < start + 20 { empty_block_byte(k - start, blocks as u64) } else if k >= start && k < end { 0 } else if k < existing { old[k] } else { 0 };
    assert_eq!(memfs::file_byte(slot, k), want);
    kani::cover!(k == start + 12);
    kani::cover!(k + 1 == memfs::file_len(slot));
}
#[kani::proof]
#[kani::unwind(160)]
#[kani::stub(core::str::validations::run_utf8_validation, ascii_utf8_validation)]
#[kani::stub(core::slice::memchr::memchr_aligned, naive_memchr)]
#[kani::stub(core::slice::memchr::memrchr, naive_memrchr)]
fn c03_apply_delete_data() { apply_delete_or_expand(b'D', 0, "/g/sqpack/ex1/0a0102.win32.dat3", 2, 2, 640); }
#[kani::proof]
#[kani::unwind(160)]
#[kani::stub(core::str::validations::run_utf8_validation, ascii_utf8_validation)]
#[kani::stub(core::slice::memchr::memchr_aligned, naive_memchr)]
#[kani::stub(core::slice::memchr::memrchr, naive_memrchr)]
fn c03_apply_expand_data() { apply_delete_or_expand(b'E', 2, "/g/sqpack/ex1/0a0102.ps4.dat3", 1, 3, 0); }
#[kani::proof]
#[kani::unwind(160)]
#[kani::stub(core::str::validations::run_utf8_validation, ascii_utf8_validation)]
#[kani::stub(core::slice::memchr::memchr_aligned, naive_memchr)]
#[kani::stub(core::slice::memchr::memrchr, naive_memrchr)]
fn c03_apply_delete_data_across_end() { apply_delete_or_expand(b'D', 1, "/g/sqpack/ex1/0a0102.ps3.dat3", 2, 4, 384); }

/// 'A' body: 3 reserved, main id, sub id, file id, block offset / byte count / delete count (each in units of 128), data
fn add_data_header(main_id: u16, sub_id: u16, file_id: u32, offset_units: u32, data_units: u32, delete_units: u32) -> [u8; 23] {
    let mut d = delete_body(main_id, sub_id, file_id, offset_units, data_units);
    let n = delete_units.to_be_bytes();
    let mut i = 0;
    while i < 4 { d[19 + i] = n[i]; i += 1; }
    d
}

/// SQPK 'A': the 128 payload bytes land at 128 x block offset of the named data file, followed by
/// 128 x delete count zero bytes; every other byte of a pre-existing file keeps its value
#[kani::proof]
#[kani::unwind(160)]
#[kani::stub(core::str::validations::run_utf8_validation, ascii_utf8_validation)]
#[kani::stub(core::slice::memchr::memchr_aligned, naive_memchr)]
#[kani::stub(core::slice::memchr::memrchr, naive_memrchr)]
fn c03_apply_add_data() { apply_add_data(1, 1); }
#[kani::proof]
#[kani::unwind(160)]
#[kani::stub(core::str::validations::run_utf8_validation, ascii_utf8_validation)]
#[kani::stub(core::slice::memchr::memchr_aligned, naive_memchr)]
#[kani::stub(core::slice::memchr::memrchr, naive_memrchr)]
fn c03_apply_add_data_at_end_no_delete() { apply_add_data(5, 0); }
fn apply_add_data(off: u32, del: u32) {
    memfs::reset();
    let old: [u8; 640] = kani::any();
    memfs::add_file("/g/sqpack/ffxiv/040003.ps4.dat1", &old);
    let payload: [u8; 128] = kani::any();
    let mut body = [0u8; 23 + 128];
    let h = add_data_header(0x04, 0x0003, 1, off, 1, del);
    let mut i = 0;
    while i < 23 { body[i] = h[i]; i += 1; }
    i = 0;
    while i < 128 { body[23 + i] = payload[i]; i += 1; }
    let mut p = PB::new();
    p.sqpk(b'T', &target_info_body(2));
    p.sqpk(b'A', &body);
    p.eof();
    p.install();
    let r = ZiPatch::apply("/g", "p.patch");
    assert!(r.is_ok());
    assert!(!memfs::limit_hit());
    let slot = memfs::find("/g/sqpack/ffxiv/040003.ps4.dat1").expect("data file kept");
    assert_eq!(memfs::file_count(), 1);
    let start = off as usize * 128;
    let end = start + 128 + del as usize * 128;
    assert_eq!(memfs::file_len(slot), if end > 640 { end } else { 640 });
    let k: usize = kani::any();
    kani::assume(k < memfs::file_len(slot));
    let want = if k >= start && k < start + 128 { payload[k - start] } else if k >= start + 128 && k < end { 0 } else if k < 640 { old[k] } else { 0 };
    assert_eq!(memfs::file_byte(slot, k), want);
    kani::cover!(k == start);
    kani::cover!(k + 1 == memfs::file_len(slot));
}

/// SQPK 'F' body: operation letter, 2 reserved, offset, size, path length (incl. NUL), expansion id, 2 reserved, path
fn file_op_body(letter: u8, offset: u64, size: u64, expansion: u16) -> [u8; 35] {
    let mut b = [0u8; 35];
    b[0] = letter;
    let (o, s, e) = (offset.to_be_bytes(), size.to_be_bytes(), expansion.to_be_bytes());
    let mut i = 0;
    while i < 8 { b[3 + i] = o[i]; b[11 + i] = s[i]; i += 1; }
    b[22] = 8; // path length 8 = "ab/c.de" + NUL
    b[23] = e[0]; b[24] = e[1];
    let path = b"ab/c.de\0";
    i = 0;
    while i < 8 { b[27 + i] = path[i]; i += 1; }
    b
}
/// one raw patch block of L <= 112 bytes (128 bytes on the wire)
fn raw_block<const L: usize>(content: &[u8; L]) -> [u8; 128] {
    let mut b = [0u8; 128];
    b[0] = 16;
    let m = 32000i32.to_le_bytes();
    let l = (L as i32).to_le_bytes();
    let mut i = 0;
    while i < 4 { b[8 + i] = m[i]; b[12 + i] = l[i]; i += 1; }
    i = 0;
    while i < L { b[16 + i] = content[i]; i += 1; }
    b
}

/// SQPK 'F' 'A' (add file): offset 0 replaces the file by the payload; a positive offset overwrites
/// from there and keeps every other byte
#[kani::proof]
#[kani::unwind(170)]
#[kani::stub(core::str::validations::run_utf8_validation, ascii_utf8_validation)]
#[kani::stub(core::slice::memchr::memchr_aligned, naive_memchr)]
#[kani::stub(core::slice::memchr::memrchr, naive_memrchr)]
#[kani::stub(crate::common_file_operations::read_string, model_read_string)]
fn c03_apply_add_file_overwrite_at_3() { apply_add_file(true, 3); }
#[kani::proof]
#[kani::unwind(170)]
#[kani::stub(core::str::validations::run_utf8_validation, ascii_utf8_validation)]
#[kani::stub(core::slice::memchr::memchr_aligned, naive_memchr)]
#[kani::stub(core::slice::memchr::memrchr, naive_memrchr)]
#[kani::stub(crate::common_file_operations::read_string, model_read_string)]
fn c03_apply_add_file_replace_at_0() { apply_add_file(true, 0); }
#[kani::proof]
#[kani::unwind(170)]
#[kani::stub(core::str::validations::run_utf8_validation, ascii_utf8_validation)]
#[kani::stub(core::slice::memchr::memchr_aligned, naive_memchr)]
#[kani::stub(core::slice::memchr::memrchr, naive_memrchr)]
#[kani::stub(crate::common_file_operations::read_string, model_read_string)]
fn c03_apply_add_file_new_at_16() { apply_add_file(false, 16); }
fn apply_add_file(existed: bool, offset: u64) {
    memfs::reset();
    let old: [u8; 12] = kani::any();
    if existed { memfs::add_file("/g/ab/c.de", &old); }
    let other: [u8; 4] = kani::any();
    memfs::add_file("/g/ab/keep", &other);
    let content: [u8; 5] = kani::any();
    let fb = file_op_body(b'A', offset, 5, 0);
    let blk = raw_block(&content);
    let mut p = PB::new();
    p.sqpk(b'T', &target_info_body(0));
    // the file's blocks sit between the command and its CRC
    let mut body = [0u8; 35 + 128];
    let mut i = 0;
    while i < 35 { body[i] = fb[i]; i += 1; }
    i = 0;
    while i < 128 { body[35 + i] = blk[i]; i += 1; }
    p.sqpk(b'F', &body);
    p.eof();
    p.install();
    let r = ZiPatch::apply("/g", "p.patch");
    assert!(r.is_ok());
    assert!(!memfs::limit_hit());
    let slot = memfs::find("/g/ab/c.de").expect("file created");
    assert_eq!(memfs::file_count(), 2);
    let o = offset as usize;
    let old_len = if existed && o != 0 { 12 } else { 0 };
    let want_len = if o + 5 > old_len { o + 5 } else { old_len };
    assert_eq!(memfs::file_len(slot), want_len);
    let k: usize = kani::any();
    kani::assume(k < want_len);
    let want = if k >= o && k < o + 5 { content[k - o] } else if k < old_len { old[k] } else { 0 };
    assert_eq!(memfs::file_byte(slot, k), want);
    // the neighbour is untouched
    let ks = memfs::find("/g/ab/keep").unwrap();
    assert_eq!(memfs::file_len(ks), 4);
    let j: usize = kani::any();
    kani::assume(j < 4);
    assert_eq!(memfs::file_byte(ks, j), other[j]);
    kani::cover!(k == o);
}

/// SQPK 'F' 'D' (delete file) removes exactly the named file; 'M' (make dir tree) creates its parent directory
#[kani::proof]
#[kani::unwind(160)]
#[kani::stub(core::str::validations::run_utf8_validation, ascii_utf8_validation)]
#[kani::stub(core::slice::memchr::memchr_aligned, naive_memchr)]
#[kani::stub(core::slice::memchr::memrchr, naive_memrchr)]
#[kani::stub(crate::common_file_operations::read_string, model_read_string)]
fn c03_apply_delete_file() { apply_delete_file_or_mkdir(false); }
#[kani::proof]
#[kani::unwind(160)]
#[kani::stub(core::str::validations::run_utf8_validation, ascii_utf8_validation)]
#[kani::stub(core::slice::memchr::memchr_aligned, naive_memchr)]
#[kani::stub(core::slice::memchr::memrchr, naive_memrchr)]
#[kani::stub(crate::common_file_operations::read_string, model_read_string)]
fn c03_apply_make_dir_tree() { apply_delete_file_or_mkdir(true); }
fn apply_delete_file_or_mkdir(mkdir: bool) {
    memfs::reset();
    let a: [u8; 6] = kani::any();
    let b: [u8; 4] = kani::any();
    memfs::add_file("/g/ab/c.de", &a);
    memfs::add_file("/g/ab/keep", &b);
    let mut p = PB::new();
    p.sqpk(b'T', &target_info_body(0));
    p.sqpk(b'F', &file_op_body(if mkdir { b'M' } else { b'D' }, kani::any(), kani::any(), kani::any()));
    p.eof();
    p.install();
    let r = ZiPatch::apply("/g", "p.patch");
    assert!(r.is_ok());
    assert!(!memfs::limit_hit());
    let ks = memfs::find("/g/ab/keep").expect("neighbour kept");
    let j: usize = kani::any();
    kani::assume(j < 4);
    assert!(memfs::file_len(ks) == 4 && memfs::file_byte(ks, j) == b[j]);
    if mkdir {
        assert!(memfs::dir_created("/g/ab"));
        assert_eq!(memfs::file_count(), 2);
    } else {
        assert!(memfs::find("/g/ab/c.de").is_none());
        assert_eq!(memfs::file_count(), 1);
    }
    kani::cover!(true);
}

/// a patch that ends before its EOF_ chunk (truncated download) is reported as an error
fn truncated_patch(cut: usize) {
    memfs::reset();
    let mut p = PB::new();
    p.sqpk(b'T', &target_info_body(0));
    p.sqpk(b'D', &delete_body(0x0a, 0x0000, 0, 1, 1));
    // no EOF_ chunk; with cut > 0 the last command is cut short as well
    memfs::patch_truncate(memfs::patch_len() - cut);
    p.install();
    let r = ZiPatch::apply("/g", "p.patch");
    assert!(r.is_err());
    kani::cover!(true);
}
#[kani::proof]
#[kani::unwind(160)]
#[kani::stub(core::str::validations::run_utf8_validation, ascii_utf8_validation)]
#[kani::stub(core::slice::memchr::memchr_aligned, naive_memchr)]
#[kani::stub(core::slice::memchr::memrchr, naive_memrchr)]
fn c17_apply_patch_without_eof_is_an_error() { truncated_patch(0); }
#[kani::proof]
#[kani::unwind(160)]
#[kani::stub(core::str::validations::run_utf8_validation, ascii_utf8_validation)]
#[kani::stub(core::slice::memchr::memchr_aligned, naive_memchr)]
#[kani::stub(core::slice::memchr::memrchr, naive_memrchr)]
fn c17_apply_patch_cut_mid_command_is_an_error() { truncated_patch(20); }


/// two target-info commands: commands after the second one are applied to the files of the SECOND platform
#[kani::proof]
#[kani::unwind(160)]
#[kani::stub(core::str::validations::run_utf8_validation, ascii_utf8_validation)]
#[kani::stub(core::slice::memchr::memchr_aligned, naive_memchr)]
#[kani::stub(core::slice::memchr::memrchr, naive_memrchr)]
fn c03_apply_second_target_info_wins() {
    memfs::reset();
    let mut p = PB::new();
    p.sqpk(b'T', &target_info_body(0));
    p.sqpk(b'T', &target_info_body(2));
    p.sqpk(b'E', &delete_body(0x04, 0x0000, 0, 0, 1));
    p.eof();
    p.install();
    assert!(ZiPatch::apply("/g", "p.patch").is_ok());
    assert!(!memfs::limit_hit());
    assert!(memfs::find("/g/sqpack/ffxiv/040000.ps4.dat0").is_some());
    assert!(memfs::find("/g/sqpack/ffxiv/040000.win32.dat0").is_none());
    assert_eq!(memfs::file_count(), 1);
    kani::cover!(true);
}

/// SQPK 'H' (header update): a version header replaces the first KiB, an index / data header the second KiB, of the
/// dat file (`<cat><exp><chunk>.<platform>.dat<N>`) or of the index file (`.index`, `.index<N>` for N != 0) the
/// command names; the other KiB and every other file keep their contents
fn apply_header_update(file_kind: u8, header_kind: u8, file_id: u32, name: &str) {
    memfs::reset();
    let old: [u8; 2048] = kani::any();
    memfs::add_file(name, &old);
    let data: [u8; 1024] = kani::any();
    let mut body = [0u8; 11 + 1024];
    body[0] = file_kind; body[1] = header_kind; body[2] = kani::any();
    body[3] = 0x00; body[4] = 0x0a; body[5] = 0x02; body[6] = 0x00;   // main id 0x000a, sub id 0x0200 (expansion 2, chunk 0)
    let f = file_id.to_be_bytes();
    body[7] = f[0]; body[8] = f[1]; body[9] = f[2]; body[10] = f[3];
    let mut i = 0;
    while i < 1024 { body[11 + i] = data[i]; i += 1; }
    let mut p = PB::new();
    p.sqpk(b'T', &target_info_body(0));
    p.sqpk(b'H', &body);
    p.eof();
    p.install();
    assert!(ZiPatch::apply("/g", "p.patch").is_ok());
    assert!(!memfs::limit_hit());
    let slot = memfs::find(name).expect("the file the header command names");
    assert_eq!(memfs::file_count(), 1);
    assert_eq!(memfs::file_len(slot), 2048);
    let first = header_kind == b'V';
    let k: usize = kani::any();
    kani::assume(k < 2048);
    let want = if first { if k < 1024 { data[k] } else { old[k] } } else { if k < 1024 { old[k] } else { data[k - 1024] } };
    assert_eq!(memfs::file_byte(slot, k), want);
    kani::cover!(k == 1023);
    kani::cover!(k == 1024);
}
#[kani::proof]
#[kani::unwind(1040)]
#[kani::stub(core::str::validations::run_utf8_validation, ascii_utf8_validation)]
#[kani::stub(core::slice::memchr::memchr_aligned, naive_memchr)]
#[kani::stub(core::slice::memchr::memrchr, naive_memrchr)]
fn c03_apply_header_update_dat_version() { apply_header_update(b'D', b'V', 1, "/g/sqpack/ex2/0a0200.win32.dat1"); }
#[kani::proof]
#[kani::unwind(1040)]
#[kani::stub(core::str::validations::run_utf8_validation, ascii_utf8_validation)]
#[kani::stub(core::slice::memchr::memchr_aligned, naive_memchr)]
#[kani::stub(core::slice::memchr::memrchr, naive_memrchr)]
fn c03_apply_header_update_index_data() { apply_header_update(b'I', b'D', 0, "/g/sqpack/ex2/0a0200.win32.index"); }
#[kani::proof]
#[kani::unwind(1040)]
#[kani::stub(core::str::validations::run_utf8_validation, ascii_utf8_validation)]
#[kani::stub(core::slice::memchr::memchr_aligned, naive_memchr)]
#[kani::stub(core::slice::memchr::memrchr, naive_memrchr)]
fn c03_apply_header_update_index2_index() { apply_header_update(b'I', b'I', 2, "/g/sqpack/ex2/0a0200.win32.index2"); }

// =================================================================================================
// C04: ZiPatch::create over the file model.  Trees are tiny and concrete in shape (names, sizes), file CONTENTS are
// symbolic.  The produced patch is read back with Physis's own chunk reader: which commands it holds, for which relative
// path, with which content.
// =================================================================================================
fn next_file_op(c: &mut Cursor<&[u8]>) -> Option<(u8, u64)> {
    // returns (operation letter, file size) of the next chunk when it is a file operation on the path "x"; None for EOF_
    let ch = PatchChunk::read(c).expect("well-formed chunk");
    match ch.chunk_type {
        ChunkType::EndOfFile => None,
        ChunkType::Sqpk(pc) => match pc.operation {
            SqpkOperation::FileOperation(f) => {
                assert!(f.path.as_bytes() == b"x");
                let r = match f.operation { SqpkFileOperation::AddFile => (b'A', f.file_size), SqpkFileOperation::DeleteFile => (b'D', f.file_size),
                                            SqpkFileOperation::RemoveAll => (b'R', 0), SqpkFileOperation::MakeDirTree => (b'M', 0) };
                core::mem::forget(f);
                Some(r)
            }
            _ => panic!("create emits file operations only"),
        },
        _ => panic!("create emits SQPK chunks only"),
    }
}
/// `write_string` / `get_string_len` for strings without an interior NUL: the bytes followed by one NUL (decided for the real
/// functions by c17_write_string_plain).  The real ones go through `CString::new(..).unwrap()`, a `Result<CString, NulError>`
/// with rustc's multi-variant niche layout: the length of everything written after it stops being a constant (R11).
fn model_write_string(s: &String) -> Vec<u8> {
    let b = s.as_bytes();
    let mut v = Vec::with_capacity(b.len() + 1);
    let mut i = 0;
    while i < b.len() { assert!(b[i] != 0); v.push(b[i]); i += 1; }
    v.push(0);
    v
}
fn model_get_string_len(s: &String) -> usize { s.len() + 1 }
/// `read_string` for ASCII bytes: the text with the NUL bytes at both ends removed (decided for the real function by
/// c17_read_string_ascii).  The real one goes through `String::from_utf8(..).unwrap()`, again a multi-variant niche Result.
fn model_read_string(v: Vec<u8>) -> String {
    let mut start = 0;
    while start < v.len() && v[start] == 0 { start += 1; }
    let mut end = v.len();
    while end > start && v[end - 1] == 0 { end -= 1; }
    let mut out: Vec<u8> = Vec::with_capacity(end - start);
    let mut i = start;
    while i < end { assert!(v[i] < 0x80); out.push(v[i]); i += 1; }
    unsafe { String::from_utf8_unchecked(out) }
}
/// model of `Path::strip_prefix` for the normalised paths `create` builds (no `.` / `..` / repeated separators): the
/// remainder behind `base` and one separator.  std's version walks both paths with its component parser, whose
/// result slice has an if-then-else length under symbolic execution even for concrete paths.
fn naive_strip_prefix<'a>(this: &'a Path, base: &Path) -> Result<&'a Path, std::path::StripPrefixError> {
    let s = this.as_os_str().as_encoded_bytes();
    let b = base.as_os_str().as_encoded_bytes();
    let mut same = s.len() >= b.len();
    let mut i = 0;
    while same && i < b.len() { if s[i] != b[i] { same = false; } i += 1; }
    if same && s.len() == b.len() {
        Ok(Path::new(""))
    } else if same && s[b.len()] == b'/' {
        Ok(Path::new(unsafe { std::ffi::OsStr::from_encoded_bytes_unchecked(&s[b.len() + 1..]) }))
    } else {
        Err(unsafe { core::mem::transmute::<(), std::path::StripPrefixError>(()) })
    }
}
fn create_case(in_base: bool, in_new: bool) {
    memfs::reset();
    let old: [u8; 3] = kani::any();
    let new: [u8; 4] = kani::any();
    let keep: [u8; 2] = kani::any();
    if in_base { memfs::add_file("/a/x", &old); } else { memfs::add_file("/a/k", &keep); }
    if in_new { memfs::add_file("/b/x", &new); } else { memfs::add_file("/b/k", &keep); }
    let mutations = memfs::mutation_count();
    let patch = ZiPatch::create("/a", "/b").expect("a patch is produced");
    // creating a patch never modifies either tree
    assert_eq!(memfs::mutation_count(), mutations);
    assert!(!memfs::limit_hit());
    let mut c = Cursor::new(&patch[..]);
    PatchHeader::read(&mut c).expect("patch header");
    let mut added = 0;
    let mut deleted = 0;
    let mut guard = 0;
    while guard < 3 {
        match next_file_op(&mut c) {
            None => break,
            Some((b'A', size)) => {
                added += 1;
                assert_eq!(size, 4);
                c.seek(SeekFrom::Current(-4)).unwrap();
                let data = read_data_block_patch(&mut c).expect("file block");
                assert_eq!(data.len(), 4);
                assert!(data[0] == new[0] && data[1] == new[1] && data[2] == new[2] && data[3] == new[3]);
                c.seek(SeekFrom::Current(4)).unwrap();
                core::mem::forget(data);
            }
            Some((b'D', _)) => { deleted += 1; }
            Some(_) => panic!("unexpected file operation"),
        }
        guard += 1;
    }
    // a file in the new tree is (re)written with the new content and not deleted; a file only in the old tree is deleted
    assert_eq!(added, if in_new { 1 } else { 0 });
    assert_eq!(deleted, if in_base && !in_new { 1 } else { 0 });
    kani::cover!(true);
    core::mem::forget(patch);
}
#[kani::proof]
#[kani::unwind(70)]
#[kani::stub(core::str::validations::run_utf8_validation, ascii_utf8_validation)]
#[kani::stub(core::slice::memchr::memchr_aligned, naive_memchr)]
#[kani::stub(core::slice::memchr::memrchr, naive_memrchr)]
#[kani::stub(std::path::Path::_strip_prefix, naive_strip_prefix)]
#[kani::stub(crate::common_file_operations::write_string, model_write_string)]
#[kani::stub(crate::common_file_operations::get_string_len, model_get_string_len)]
#[kani::stub(crate::common_file_operations::read_string, model_read_string)]
fn c04_create_file_only_in_new() { create_case(false, true); }
#[kani::proof]
#[kani::unwind(70)]
#[kani::stub(core::str::validations::run_utf8_validation, ascii_utf8_validation)]
#[kani::stub(core::slice::memchr::memchr_aligned, naive_memchr)]
#[kani::stub(core::slice::memchr::memrchr, naive_memrchr)]
#[kani::stub(std::path::Path::_strip_prefix, naive_strip_prefix)]
#[kani::stub(crate::common_file_operations::write_string, model_write_string)]
#[kani::stub(crate::common_file_operations::get_string_len, model_get_string_len)]
#[kani::stub(crate::common_file_operations::read_string, model_read_string)]
fn c04_create_file_only_in_old() { create_case(true, false); }
#[kani::proof]
#[kani::unwind(70)]
#[kani::stub(core::str::validations::run_utf8_validation, ascii_utf8_validation)]
#[kani::stub(core::slice::memchr::memchr_aligned, naive_memchr)]
#[kani::stub(core::slice::memchr::memrchr, naive_memrchr)]
#[kani::stub(std::path::Path::_strip_prefix, naive_strip_prefix)]
#[kani::stub(crate::common_file_operations::write_string, model_write_string)]
#[kani::stub(crate::common_file_operations::get_string_len, model_get_string_len)]
#[kani::stub(crate::common_file_operations::read_string, model_read_string)]
fn c04_create_file_in_both() { create_case(true, true); }
/// the new tree is an empty directory: the only file of the old tree is deleted by the patch
#[kani::proof]
#[kani::unwind(70)]
#[kani::stub(core::str::validations::run_utf8_validation, ascii_utf8_validation)]
#[kani::stub(core::slice::memchr::memchr_aligned, naive_memchr)]
#[kani::stub(core::slice::memchr::memrchr, naive_memrchr)]
#[kani::stub(std::path::Path::_strip_prefix, naive_strip_prefix)]
#[kani::stub(crate::common_file_operations::write_string, model_write_string)]
#[kani::stub(crate::common_file_operations::get_string_len, model_get_string_len)]
#[kani::stub(crate::common_file_operations::read_string, model_read_string)]
fn c04_create_new_tree_empty() {
    memfs::reset();
    let old: [u8; 3] = kani::any();
    memfs::add_file("/a/x", &old);
    memfs::create_dir_all("/b").unwrap();
    let mutations = memfs::mutation_count();
    let patch = ZiPatch::create("/a", "/b").expect("a patch is produced");
    assert_eq!(memfs::mutation_count(), mutations);
    let mut c = Cursor::new(&patch[..]);
    PatchHeader::read(&mut c).expect("patch header");
    match next_file_op(&mut c) { Some((b'D', _)) => {}, _ => panic!("the file of the old tree must be deleted") }
    assert!(next_file_op(&mut c).is_none());
    kani::cover!(true);
    core::mem::forget(patch);
}
