#![allow(static_mut_refs, unused_imports, dead_code, unused_unsafe)]
// Kani harnesses for src/patch.rs: decoding of ZiPatch commands (wire format: big-endian fields,
// block quantities in units of 128 bytes), at concrete layouts with symbolic field bytes.
use super::*;
use std::io::Cursor;

fn be16(b: &[u8], o: usize) -> u16 { u16::from_be_bytes([b[o], b[o + 1]]) }
fn be32(b: &[u8], o: usize) -> u32 { u32::from_be_bytes([b[o], b[o + 1], b[o + 2], b[o + 3]]) }
fn be64(b: &[u8], o: usize) -> u64 { ((be32(b, o) as u64) << 32) | be32(b, o + 4) as u64 }

/// SQPK 'A' (add data): 3 reserved, main id, sub id, file id, block offset, byte count and delete
/// count (each a big-endian u32 in units of 128 bytes), then exactly `count * 128` payload bytes
#[kani::proof]
#[kani::unwind(140)]
fn c03_sqpk_add_data_fields() {
    let mut b: [u8; 23 + 128] = kani::any();
    // payload size is shape: one unit of 128 bytes
    b[15] = 0; b[16] = 0; b[17] = 0; b[18] = 1;
    let mut c = Cursor::new(&b[..]);
    let d = SqpkAddData::read(&mut c).unwrap();
    assert_eq!(d.main_id, be16(&b, 3));
    assert_eq!(d.sub_id, be16(&b, 5));
    assert_eq!(d.file_id, be32(&b, 7));
    assert_eq!(d.block_offset, (be32(&b, 11) as u64) * 128);
    assert_eq!(d.block_number, 128);
    assert_eq!(d.block_delete_number, (be32(&b, 19) as u64) * 128);
    assert_eq!(d.block_data.len(), 128);
    let k: usize = kani::any();
    kani::assume(k < 128);
    assert_eq!(d.block_data[k], b[23 + k]);
    assert_eq!(c.position(), 23 + 128);
    kani::cover!(true);
    core::mem::forget(d);
}

/// SQPK 'D' / 'E' (delete / expand): block offset in units of 128, raw block count, 4 reserved
#[kani::proof]
#[kani::unwind(10)]
fn c03_sqpk_delete_data_fields() {
    let b: [u8; 23] = kani::any();
    let mut c = Cursor::new(&b[..]);
    let d = SqpkDeleteData::read(&mut c).unwrap();
    assert_eq!(d.main_id, be16(&b, 3));
    assert_eq!(d.sub_id, be16(&b, 5));
    assert_eq!(d.file_id, be32(&b, 7));
    assert_eq!(d.block_offset, (be32(&b, 11) as u64) * 128);
    assert_eq!(d.block_number, be32(&b, 15));
    assert_eq!(c.position(), 23);
    kani::cover!(true);
}

/// SQPK 'T' (target info): 3 reserved bytes, platform as a big-endian u16, region (i16),
/// debug flag (u16), version (u16), two little-endian u64, 96 reserved bytes
fn target_info_platform(platform_code: u16) {
    let mut b: [u8; 27 + 96] = kani::any();
    let pc = platform_code.to_be_bytes();
    b[3] = pc[0];
    b[4] = pc[1];
    b[5] = 0xFF; b[6] = 0xFF; // region Global (-1)
    let mut c = Cursor::new(&b[..]);
    let t = SqpkTargetInfo::read(&mut c).unwrap();
    assert_eq!(t.platform as u16, platform_code);
    assert!(t.region == Region::Global);
    assert_eq!(t.is_debug, be16(&b, 7) == 1);
    assert_eq!(t.version, be16(&b, 9));
    assert_eq!(t.deleted_data_size, u64::from_le_bytes([b[11], b[12], b[13], b[14], b[15], b[16], b[17], b[18]]));
    assert_eq!(t.seek_count, u64::from_le_bytes([b[19], b[20], b[21], b[22], b[23], b[24], b[25], b[26]]));
    assert_eq!(c.position(), 27 + 96);
    kani::cover!(true);
}
#[kani::proof]
#[kani::unwind(10)]
fn c03_sqpk_target_info_win32() { target_info_platform(0); }
#[kani::proof]
#[kani::unwind(10)]
fn c03_sqpk_target_info_ps3() { target_info_platform(1); }
#[kani::proof]
#[kani::unwind(10)]
fn c03_sqpk_target_info_ps4() { target_info_platform(2); }

/// SQPK 'I' (index) and 'X' (patch info)
#[kani::proof]
#[kani::unwind(10)]
fn c03_sqpk_index_and_patch_info() {
    let mut b: [u8; 27] = kani::any();
    b[0] = b'D';
    let mut c = Cursor::new(&b[..]);
    let i = SqpkIndex::read(&mut c).unwrap();
    assert!(i.command == SqpkIndexCommand::Delete);
    assert_eq!(i.is_synonym, b[1] == 1);
    assert_eq!(i.file_hash, be64(&b, 3));
    assert_eq!(i.block_offset, be32(&b, 11));
    assert_eq!(i.block_number, be32(&b, 15));
    assert_eq!(c.position(), 27);
    let mut c = Cursor::new(&b[..]);
    let x = SqpkPatchInfo::read_be(&mut c).unwrap();
    assert_eq!((x.status, x.version), (b[0], b[1]));
    assert_eq!(x.install_size, be64(&b, 3));
    assert_eq!(c.position(), 11);
    kani::cover!(true);
}

/// SQPK 'F' (file operation): operation letter, 2 reserved, offset, size, path length (incl. NUL),
/// expansion id, 2 reserved, path
fn file_operation(letter: u8) {
    let mut b: [u8; 24 + 8] = kani::any();
    b[0] = letter;
    b[19] = 0; b[20] = 0; b[21] = 0; b[22] = 8; // path length 8 = "ab/c.de" + NUL
    let path = b"ab/c.de\0";
    let mut i = 0;
    while i < 8 { b[27 + i - 3] = path[i]; i += 1; }
    let mut c = Cursor::new(&b[..]);
    let f = SqpkFileOperationData::read(&mut c).unwrap();
    let want = match letter { b'A' => SqpkFileOperation::AddFile, b'R' => SqpkFileOperation::RemoveAll, b'D' => SqpkFileOperation::DeleteFile, _ => SqpkFileOperation::MakeDirTree };
    assert!(f.operation == want);
    assert_eq!(f.offset, be64(&b, 3));
    assert_eq!(f.file_size, be64(&b, 11));
    assert_eq!(f.expansion_id, be16(&b, 23 - 0));
    assert!(f.path.as_bytes() == b"ab/c.de");
    assert_eq!(c.position(), 32);
    kani::cover!(true);
    core::mem::forget(f);
}
#[kani::proof]
#[kani::unwind(12)]
#[kani::stub(core::str::validations::run_utf8_validation, crate::verif_support::refs::ascii_utf8_validation)]
fn c03_sqpk_file_operation_add() { file_operation(b'A'); }
#[kani::proof]
#[kani::unwind(12)]
#[kani::stub(core::str::validations::run_utf8_validation, crate::verif_support::refs::ascii_utf8_validation)]
fn c03_sqpk_file_operation_delete() { file_operation(b'D'); }

/// chunk framing: big-endian size, 4-byte tag, body, trailing CRC (none after EOF_)
#[kani::proof]
#[kani::unwind(12)]
fn c03_chunk_framing_eof_and_apply() {
    let mut b: [u8; 8] = kani::any();
    b[4] = b'E'; b[5] = b'O'; b[6] = b'F'; b[7] = b'_';
    let mut c = Cursor::new(&b[..]);
    let ch = PatchChunk::read(&mut c).unwrap();
    assert_eq!(ch.size, be32(&b, 0));
    assert!(ch.chunk_type == ChunkType::EndOfFile);
    assert_eq!(c.position(), 8);
    core::mem::forget(ch);
    let mut a: [u8; 24] = kani::any();
    a[4] = b'A'; a[5] = b'P'; a[6] = b'L'; a[7] = b'Y';
    a[8] = 0; a[9] = 0; a[10] = 0; a[11] = 2; // option IgnoreOldMismatch
    let mut c = Cursor::new(&a[..]);
    let ch = PatchChunk::read(&mut c).unwrap();
    assert_eq!(ch.size, be32(&a, 0));
    match &ch.chunk_type {
        ChunkType::ApplyOption(o) => {
            assert!(o.option == ApplyOption::IgnoreOldMismatch);
            assert_eq!(o.value, be32(&a, 16));
        }
        _ => panic!("wrong chunk kind"),
    }
    assert_eq!(ch.crc32, u32::from_le_bytes([a[20], a[21], a[22], a[23]]));
    assert_eq!(c.position(), 24);
    kani::cover!(true);
    core::mem::forget(ch);
}

#[kani::proof]
#[kani::unwind(10)]
fn c03p_pipeline_witness() {
    let b: [u8; 23] = kani::any();
    let mut c = Cursor::new(&b[..]);
    let _ = SqpkDeleteData::read(&mut c).unwrap();
    assert!(false);
}

// =================================================================================================
// C03: the two file-writing kernels of ZiPatch::apply (delete / expand and the zero-fill after add),
// run over the in-memory file model (support/memfs.rs, wired in through registry.TRANSFORMS).
// Whole-`apply` harnesses were written and are kept in notes/apply_harnesses_not_registered.rs.txt
// with the measured reason they do not decide.
// =================================================================================================
use crate::verif_support::memfs;

/// the empty-block header written by delete / expand: block size 128, 0, 0, block count - 1, 0 (little-endian i32 each)
fn empty_block_byte(k: usize, blocks: u64) -> u8 {
    if k < 4 { 128u32.to_le_bytes()[k] } else if k >= 12 && k < 16 { ((blocks - 1) as u32).to_le_bytes()[k - 12] } else { 0 }
}

/// `write_empty_file_block_at(file, offset, n)`: the n x 128 bytes from `offset` become an empty-block header followed
/// by zeros; every other byte of the file keeps its value and the file only grows when the range ends behind its end.
/// Offset and block count are concrete per instance (a symbolic-size bulk write into the file model did not decide
/// in 900 s); the previous file content (512 bytes) is symbolic.
fn empty_block_case(units: u64, blocks: u64) {
    memfs::reset();
    let old: [u8; 512] = kani::any();
    memfs::add_file("/g/d.dat0", &old);
    let f = OpenOptions::new().write(true).create(true).truncate(false).open("/g/d.dat0").unwrap();
    let offset = units * 128;
    let r = write_empty_file_block_at(&f, offset, blocks);
    assert!(r.is_ok());
    assert!(!memfs::limit_hit());
    let slot = memfs::find("/g/d.dat0").unwrap();
    let start = offset as usize;
    let end = start + blocks as usize * 128;
    assert_eq!(memfs::file_len(slot), if end > 512 { end } else { 512 });
    let k: usize = kani::any();
    kani::assume(k < memfs::file_len(slot));
    let want = if k >= start && k < start + 20 { empty_block_byte(k - start, blocks) } else if k >= start && k < end { 0 } else if k < 512 { old[k] } else { 0 };
    assert_eq!(memfs::file_byte(slot, k), want);
    assert_eq!(memfs::file_count(), 1);
    kani::cover!(k == start + 12);
    kani::cover!(k + 1 == memfs::file_len(slot));
}
#[kani::proof]
#[kani::unwind(70)]
fn c03_empty_block_at0_1block() { empty_block_case(0, 1); }
#[kani::proof]
#[kani::unwind(70)]
fn c03_empty_block_at2_2blocks() { empty_block_case(2, 2); }
#[kani::proof]
#[kani::unwind(70)]
fn c03_empty_block_at3_3blocks_grows_file() { empty_block_case(3, 3); }
#[kani::proof]
#[kani::unwind(70)]
fn c03_empty_block_behind_end_leaves_gap() { empty_block_case(5, 1); }

/// `wipe(file, n)` writes n zero bytes at the current position and nothing else (position / length concrete per instance)
fn wipe_case(pos: u64, n: usize) {
    memfs::reset();
    let old: [u8; 300] = kani::any();
    memfs::add_file("/g/w", &old);
    let f = OpenOptions::new().write(true).create(true).truncate(false).open("/g/w").unwrap();
    (&f).seek(SeekFrom::Start(pos)).unwrap();
    assert!(wipe(&f, n).is_ok());
    assert!(!memfs::limit_hit());
    let slot = memfs::find("/g/w").unwrap();
    let (p, e) = (pos as usize, pos as usize + n);
    assert_eq!(memfs::file_len(slot), if n > 0 && e > 300 { e } else { 300 });
    let k: usize = kani::any();
    kani::assume(k < memfs::file_len(slot));
    let want = if k >= p && k < e { 0 } else if k < 300 { old[k] } else { 0 };
    assert_eq!(memfs::file_byte(slot, k), want);
    kani::cover!(true);
}
#[kani::proof]
#[kani::unwind(70)]
fn c03_wipe_inside_file() { wipe_case(17, 130); }
#[kani::proof]
#[kani::unwind(70)]
fn c03_wipe_nothing() { wipe_case(40, 0); }
#[kani::proof]
#[kani::unwind(70)]
fn c03_wipe_across_end() { wipe_case(250, 256); }
