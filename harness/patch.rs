#![allow(static_mut_refs, unused_imports, dead_code, unused_unsafe)]
// Kani harnesses for src/patch.rs: decoding of ZiPatch commands (wire format: big-endian fields,
// block quantities in units of 128 bytes), at concrete layouts with symbolic field bytes.
use super::*;
use std::io::Cursor;

fn be16(b: &[u8], o: usize) -> u16 { u16::from_be_bytes([b[o], b[o + 1]]) }
fn be32(b: &[u8], o: usize) -> u32 { u32::from_be_bytes([b[o], b[o + 1], b[o + 2], b[o + 3]]) }
fn be64(b: &[u8], o: usize) -> u64 { ((be32(b, o) as u64) << 32) | be32(b, o + 4) as u64 }

/// SQPK 'A' (add data): 3 reserved, main id, sub id, file id, block offset, byte count and delete
/// count (each a big-endian u32 in units of 128 bytes), then exactly `count * 128` payload bytes
#[kani::proof]
#[kani::unwind(140)]
fn c03_sqpk_add_data_fields() {
    let mut b: [u8; 23 + 128] = kani::any();
    // payload size is shape: one unit of 128 bytes
    b[15] = 0; b[16] = 0; b[17] = 0; b[18] = 1;
    let mut c = Cursor::new(&b[..]);
    let d = SqpkAddData::read(&mut c).unwrap();
    assert_eq!(d.main_id, be16(&b, 3));
    assert_eq!(d.sub_id, be16(&b, 5));
    assert_eq!(d.file_id, be32(&b, 7));
    assert_eq!(d.block_offset, (be32(&b, 11) as u64) * 128);
    assert_eq!(d.block_number, 128);
    assert_eq!(d.block_delete_number, (be32(&b, 19) as u64) * 128);
    assert_eq!(d.block_data.len(), 128);
    let k: usize = kani::any();
    kani::assume(k < 128);
    assert_eq!(d.block_data[k], b[23 + k]);
    assert_eq!(c.position(), 23 + 128);
    kani::cover!(true);
    core::mem::forget(d);
}

/// SQPK 'D' / 'E' (delete / expand): block offset in units of 128, raw block count, 4 reserved
#[kani::proof]
#[kani::unwind(10)]
fn c03_sqpk_delete_data_fields() {
    let b: [u8; 23] = kani::any();
    let mut c = Cursor::new(&b[..]);
    let d = SqpkDeleteData::read(&mut c).unwrap();
    assert_eq!(d.main_id, be16(&b, 3));
    assert_eq!(d.sub_id, be16(&b, 5));
    assert_eq!(d.file_id, be32(&b, 7));
    assert_eq!(d.block_offset, (be32(&b, 11) as u64) * 128);
    assert_eq!(d.block_number, be32(&b, 15));
    assert_eq!(c.position(), 23);
    kani::cover!(true);
}

/// SQPK 'T' (target info): 3 reserved bytes, platform as a big-endian u16, region (i16),
/// debug flag (u16), version (u16), two little-endian u64, 96 reserved bytes
fn target_info_platform(platform_code: u16) {
    let mut b: [u8; 27 + 96] = kani::any();
    let pc = platform_code.to_be_bytes();
    b[3] = pc[0];
    b[4] = pc[1];
    b[5] = 0xFF; b[6] = 0xFF; // region Global (-1)
    let mut c = Cursor::new(&b[..]);
    let t = SqpkTargetInfo::read(&mut c).unwrap();
    assert_eq!(t.platform as u16, platform_code);
    assert!(t.region == Region::Global);
    assert_eq!(t.is_debug, be16(&b, 7) == 1);
    assert_eq!(t.version, be16(&b, 9));
    assert_eq!(t.deleted_data_size, u64::from_le_bytes([b[11], b[12], b[13], b[14], b[15], b[16], b[17], b[18]]));
    assert_eq!(t.seek_count, u64::from_le_bytes([b[19], b[20], b[21], b[22], b[23], b[24], b[25], b[26]]));
    assert_eq!(c.position(), 27 + 96);
    kani::cover!(true);
}
#[kani::proof]
#[kani::unwind(10)]
fn c03_sqpk_target_info_win32() { target_info_platform(0); }
#[kani::proof]
#[kani::unwind(10)]
fn c03_sqpk_target_info_ps3() { target_info_platform(1); }
#[kani::proof]
#[kani::unwind(10)]
fn c03_sqpk_target_info_ps4() { target_info_platform(2); }

/// SQPK 'I' (index) and 'X' (patch info)
#[kani::proof]
#[kani::unwind(10)]
fn c03_sqpk_index_and_patch_info() {
    let mut b: [u8; 27] = kani::any();
    b[0] = b'D';
    let mut c = Cursor::new(&b[..]);
    let i = SqpkIndex::read(&mut c).unwrap();
    assert!(i.command == SqpkIndexCommand::Delete);
    assert_eq!(i.is_synonym, b[1] == 1);
    assert_eq!(i.file_hash, be64(&b, 3));
    assert_eq!(i.block_offset, be32(&b, 11));
    assert_eq!(i.block_number, be32(&b, 15));
    assert_eq!(c.position(), 27);
    let mut c = Cursor::new(&b[..]);
    let x = SqpkPatchInfo::read_be(&mut c).unwrap();
    assert_eq!((x.status, x.version), (b[0], b[1]));
    assert_eq!(x.install_size, be64(&b, 3));
    assert_eq!(c.position(), 11);
    kani::cover!(true);
}

/// SQPK 'F' (file operation): operation letter, 2 reserved, offset, size, path length (incl. NUL),
/// expansion id, 2 reserved, path
fn file_operation(letter: u8) {
    let mut b: [u8; 24 + 8] = kani::any();
    b[0] = letter;
    b[19] = 0; b[20] = 0; b[21] = 0; b[22] = 8; // path length 8 = "ab/c.de" + NUL
    let path = b"ab/c.de\0";
    let mut i = 0;
    while i < 8 { b[27 + i - 3] = path[i]; i += 1; }
    let mut c = Cursor::new(&b[..]);
    let f = SqpkFileOperationData::read(&mut c).unwrap();
    let want = match letter { b'A' => SqpkFileOperation::AddFile, b'R' => SqpkFileOperation::RemoveAll, b'D' => SqpkFileOperation::DeleteFile, _ => SqpkFileOperation::MakeDirTree };
    assert!(f.operation == want);
    assert_eq!(f.offset, be64(&b, 3));
    assert_eq!(f.file_size, be64(&b, 11));
    assert_eq!(f.expansion_id, be16(&b, 23 - 0));
    assert!(f.path.as_bytes() == b"ab/c.de");
    assert_eq!(c.position(), 32);
    kani::cover!(true);
    core::mem::forget(f);
}
#[kani::proof]
#[kani::unwind(12)]
#[kani::stub(core::str::validations::run_utf8_validation, crate::verif_support::refs::ascii_utf8_validation)]
fn c03_sqpk_file_operation_add() { file_operation(b'A'); }
#[kani::proof]
#[kani::unwind(12)]
#[kani::stub(core::str::validations::run_utf8_validation, crate::verif_support::refs::ascii_utf8_validation)]
fn c03_sqpk_file_operation_delete() { file_operation(b'D'); }

/// chunk framing: big-endian size, 4-byte tag, body, trailing CRC (none after EOF_)
#[kani::proof]
#[kani::unwind(12)]
fn c03_chunk_framing_eof_and_apply() {
    let mut b: [u8; 8] = kani::any();
    b[4] = b'E'; b[5] = b'O'; b[6] = b'F'; b[7] = b'_';
    let mut c = Cursor::new(&b[..]);
    let ch = PatchChunk::read(&mut c).unwrap();
    assert_eq!(ch.size, be32(&b, 0));
    assert!(ch.chunk_type == ChunkType::EndOfFile);
    assert_eq!(c.position(), 8);
    core::mem::forget(ch);
    let mut a: [u8; 24] = kani::any();
    a[4] = b'A'; a[5] = b'P'; a[6] = b'L'; a[7] = b'Y';
    a[8] = 0; a[9] = 0; a[10] = 0; a[11] = 2; // option IgnoreOldMismatch
    let mut c = Cursor::new(&a[..]);
    let ch = PatchChunk::read(&mut c).unwrap();
    assert_eq!(ch.size, be32(&a, 0));
    match &ch.chunk_type {
        ChunkType::ApplyOption(o) => {
            assert!(o.option == ApplyOption::IgnoreOldMismatch);
            assert_eq!(o.value, be32(&a, 16));
        }
        _ => panic!("wrong chunk kind"),
    }
    assert_eq!(ch.crc32, u32::from_le_bytes([a[20], a[21], a[22], a[23]]));
    assert_eq!(c.position(), 24);
    kani::cover!(true);
    core::mem::forget(ch);
}

#[kani::proof]
#[kani::unwind(10)]
fn c03p_pipeline_witness() {
    let b: [u8; 23] = kani::any();
    let mut c = Cursor::new(&b[..]);
    let _ = SqpkDeleteData::read(&mut c).unwrap();
    assert!(false);
}
