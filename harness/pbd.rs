#![allow(static_mut_refs, unused_imports, dead_code, unused_unsafe)]
// Kani harnesses for src/pbd.rs: the deformer chain walk over a constructed tree
use super::*;

fn deformer(name: &str, m: [u32; 12]) -> RacialDeformer {
    let mut t = [0f32; 12];
    let mut i = 0;
    while i < 12 { t[i] = f32::from_bits(m[i]); i += 1; }
    RacialDeformer { bone_count: 1, bone_name_offsets: vec![0], bone_names: vec![name.to_string()], transform: vec![t] }
}
fn link(parent: i16, child: i16, sibling: i16, deformer_index: u16) -> PreBoneDeformerLink {
    PreBoneDeformerLink { parent_index: parent, first_child_index: child, next_sibling_index: sibling, deformer_index }
}

/// Tree  A(101) <- B(201) <- { C(301), D(401) };  the LINK table is stored in a different order
/// than the ITEM table (items A,B,C,D ; links C,D,A,B), as real files may.
fn tree(m: &[[u32; 12]; 4]) -> PreBoneDeformer {
    let items = vec![
        PreBoneDeformerItem { body_id: 101, link_index: 2, deformer: deformer("a", m[0]) },
        PreBoneDeformerItem { body_id: 201, link_index: 3, deformer: deformer("b", m[1]) },
        PreBoneDeformerItem { body_id: 301, link_index: 0, deformer: deformer("c", m[2]) },
        PreBoneDeformerItem { body_id: 401, link_index: 1, deformer: deformer("d", m[3]) },
    ];
    let links = vec![
        link(3, -1, 1, 2),  // C: parent B (link 3), sibling D (link 1), item 2
        link(3, -1, -1, 3), // D: parent B, no further sibling, item 3
        link(-1, 3, -1, 0), // A: root, item 0
        link(2, 0, -1, 1),  // B: parent A (link 2), first child C (link 0), item 1
    ];
    PreBoneDeformer { header: PreBoneDeformerHeader { count: 4, items, links } }
}

fn check_bones(got: &PreBoneDeformMatrices, names: &[&str], mats: &[[u32; 12]]) {
    assert_eq!(got.bones.len(), names.len());
    let mut i = 0;
    while i < names.len() {
        assert!(got.bones[i].name == names[i]);
        let k: usize = kani::any();
        kani::assume(k < 12);
        assert_eq!(got.bones[i].deform[k].to_bits(), mats[i][k]);
        i += 1;
    }
}

/// bones along the parent chain from `from` up to (excluding) `to`
#[kani::proof]
#[kani::unwind(20)]
fn c16_deform_chain_walk() {
    let m: [[u32; 12]; 4] = kani::any();
    let pbd = tree(&m);
    // C -> A : C's then B's bones
    let r = pbd.get_deform_matrices(301, 101).unwrap();
    check_bones(&r, &["c", "b"], &[m[2], m[1]]);
    core::mem::forget(r);
    // C -> B : only C's bones
    let r = pbd.get_deform_matrices(301, 201).unwrap();
    check_bones(&r, &["c"], &[m[2]]);
    core::mem::forget(r);
    // C -> a body id that is not an ancestor: walks to the root
    let r = pbd.get_deform_matrices(301, 401).unwrap();
    check_bones(&r, &["c", "b", "a"], &[m[2], m[1], m[0]]);
    core::mem::forget(r);
    // same id, unknown id
    assert!(pbd.get_deform_matrices(301, 301).is_none());
    assert!(pbd.get_deform_matrices(999, 101).is_none());
    kani::cover!(true);
    core::mem::forget(pbd);
}

#[kani::proof]
#[kani::unwind(20)]
fn c16p_pipeline_witness() {
    let m: [[u32; 12]; 4] = kani::any();
    let pbd = tree(&m);
    let r = pbd.get_deform_matrices(301, 201);
    core::mem::forget((r, pbd));
    assert!(false);
}

// ------------------------------------------------------------------------------------- C18
/// link / item indices taken from the file are used unchecked: a damaged table must not crash
#[kani::proof]
#[kani::unwind(20)]
fn c18_deform_link_index_out_of_range() {
    let m: [[u32; 12]; 4] = kani::any();
    let mut pbd = tree(&m);
    pbd.header.items[2].link_index = 9;
    let r = pbd.get_deform_matrices(301, 101);
    kani::cover!(true);
    core::mem::forget((r, pbd));
}

/// a parent cycle (C -> B -> C ...) must terminate
#[kani::proof]
#[kani::unwind(16)]
fn c18_deform_parent_cycle_terminates() {
    let m: [[u32; 12]; 4] = kani::any();
    let mut pbd = tree(&m);
    pbd.header.links[3].parent_index = 0; // B's parent is C
    let r = pbd.get_deform_matrices(301, 101);
    kani::cover!(true);
    core::mem::forget((r, pbd));
}
