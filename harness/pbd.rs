#![allow(static_mut_refs, unused_imports, dead_code, unused_unsafe)]
// Kani harnesses for src/pbd.rs: the deformer chain walk over a constructed tree
use super::*;

fn deformer(name: &str, m: [u32; 12]) -> RacialDeformer {
    let mut t = [0f32; 12];
    let mut i = 0;
    while i < 12 { t[i] = f32::from_bits(m[i]); i += 1; }
    RacialDeformer { bone_count: 1, bone_name_offsets: vec![0], bone_names: vec![name.to_string()], transform: vec![t] }
}
fn link(parent: i16, child: i16, sibling: i16, deformer_index: u16) -> PreBoneDeformerLink {
    PreBoneDeformerLink { parent_index: parent, first_child_index: child, next_sibling_index: sibling, deformer_index }
}

/// Tree  A(101) <- B(201) <- { C(301), D(401) };  the LINK table is stored in a different order
/// than the ITEM table (items A,B,C,D ; links C,D,A,B), as real files may.
fn tree(m: &[[u32; 12]; 4]) -> PreBoneDeformer {
    let items = vec![
        PreBoneDeformerItem { body_id: 101, link_index: 2, deformer: deformer("a", m[0]) },
        PreBoneDeformerItem { body_id: 201, link_index: 3, deformer: deformer("b", m[1]) },
        PreBoneDeformerItem { body_id: 301, link_index: 0, deformer: deformer("c", m[2]) },
        PreBoneDeformerItem { body_id: 401, link_index: 1, deformer: deformer("d", m[3]) },
    ];
    let links = vec![
        link(3, -1, 1, 2),  // C: parent B (link 3), sibling D (link 1), item 2
        link(3, -1, -1, 3), // D: parent B, no further sibling, item 3
        link(-1, 3, -1, 0), // A: root, item 0
        link(2, 0, -1, 1),  // B: parent A (link 2), first child C (link 0), item 1
    ];
    PreBoneDeformer { header: PreBoneDeformerHeader { count: 4, items, links } }
}

fn check_bones(got: &PreBoneDeformMatrices, names: &[&str], mats: &[[u32; 12]]) {
    assert_eq!(got.bones.len(), names.len());
    let mut i = 0;
    while i < names.len() {
        assert!(got.bones[i].name == names[i]);
        let k: usize = kani::any();
        kani::assume(k < 12);
        assert_eq!(got.bones[i].deform[k].to_bits(), mats[i][k]);
        i += 1;
    }
}

/// bones along the parent chain from `from` up to (excluding) `to`
#[kani::proof]
#[kani::unwind(20)]
fn c16_deform_chain_walk() {
    let m: [[u32; 12]; 4] = kani::any();
    let pbd = tree(&m);
    // C -> A : C's then B's bones
    let r = pbd.get_deform_matrices(301, 101).unwrap();
    check_bones(&r, &["c", "b"], &[m[2], m[1]]);
    core::mem::forget(r);
    // C -> B : only C's bones
    let r = pbd.get_deform_matrices(301, 201).unwrap();
    check_bones(&r, &["c"], &[m[2]]);
    core::mem::forget(r);
    // C -> a body id that is not an ancestor: walks to the root
    let r = pbd.get_deform_matrices(301, 401).unwrap();
    check_bones(&r, &["c", "b", "a"], &[m[2], m[1], m[0]]);
    core::mem::forget(r);
    // same id, unknown id
    assert!(pbd.get_deform_matrices(301, 301).is_none());
    assert!(pbd.get_deform_matrices(999, 101).is_none());
    kani::cover!(true);
    core::mem::forget(pbd);
}

#[kani::proof]
#[kani::unwind(20)]
fn c16p_pipeline_witness() {
    let m: [[u32; 12]; 4] = kani::any();
    let pbd = tree(&m);
    let r = pbd.get_deform_matrices(301, 201);
    core::mem::forget((r, pbd));
    assert!(false);
}

// ------------------------------------------------------------------------------------- C18
/// link / item indices taken from the file are used unchecked: a damaged table must not crash
#[kani::proof]
#[kani::unwind(20)]
fn c18_deform_link_index_out_of_range() {
    let m: [[u32; 12]; 4] = kani::any();
    let mut pbd = tree(&m);
    pbd.header.items[2].link_index = 9;
    let r = pbd.get_deform_matrices(301, 101);
    kani::cover!(true);
    core::mem::forget((r, pbd));
}

/// a parent cycle (C -> B -> C ...) must terminate
#[kani::proof]
#[kani::unwind(16)]
fn c18_deform_parent_cycle_terminates() {
    let m: [[u32; 12]; 4] = kani::any();
    let mut pbd = tree(&m);
    pbd.header.links[3].parent_index = 0; // B's parent is C
    let r = pbd.get_deform_matrices(301, 101);
    kani::cover!(true);
    core::mem::forget((r, pbd));
}

// =================================================================================================
// C16: PreBoneDeformer::from_existing on a generated 217-byte file: 2 body ids, 2 links, deformer 0
// with one bone (odd count: 2 bytes of padding before the matrices), deformer 1 with two bones.
// Counts, data offsets and bone names are concrete; body ids, link fields and all 36 matrix words
// are symbolic.
// =================================================================================================
const PB_TOTAL: usize = 217;
#[kani::proof]
#[kani::unwind(16)]
fn c16_deformer_from_existing() {
    let mut b: [u8; PB_TOTAL] = kani::any();
    let put32 = |b: &mut [u8; PB_TOTAL], o: usize, v: i32| { let x = v.to_le_bytes(); b[o] = x[0]; b[o + 1] = x[1]; b[o + 2] = x[2]; b[o + 3] = x[3]; };
    let put16 = |b: &mut [u8; PB_TOTAL], o: usize, v: u16| { let x = v.to_le_bytes(); b[o] = x[0]; b[o + 1] = x[1]; };
    let le16 = |b: &[u8; PB_TOTAL], o: usize| u16::from_le_bytes([b[o], b[o + 1]]);
    let le32 = |b: &[u8; PB_TOTAL], o: usize| u32::from_le_bytes([b[o], b[o + 1], b[o + 2], b[o + 3]]);
    put32(&mut b, 0, 2);                       // two items, two links
    put32(&mut b, 4 + 4, 44);                  // item 0: body id, link index (symbolic), data offset 44, 4 reserved
    put32(&mut b, 16 + 4, 105);                // item 1: data offset 105 (unaligned on purpose)
    // links at 28..44 (symbolic)
    // deformer 0 at 44: 1 bone, name offset 56, 2 bytes padding, 12 floats, name "j_ab" at 44 + 56 = 100
    put32(&mut b, 44, 1); put16(&mut b, 48, 56);
    let n0 = b"j_ab\0";
    let mut i = 0;
    while i < 5 { b[100 + i] = n0[i]; i += 1; }
    // deformer 1 at 105: 2 bones, name offsets 104 / 108, no padding, 24 floats, names at 209 / 213
    put32(&mut b, 105, 2); put16(&mut b, 109, 104); put16(&mut b, 111, 108);
    let n1 = b"n_a\0n_b\0";
    i = 0;
    while i < 8 { b[209 + i] = n1[i]; i += 1; }
    let pbd = PreBoneDeformer::from_existing(&b).unwrap();
    let h = &pbd.header;
    assert_eq!((h.count, h.items.len(), h.links.len()), (2, 2, 2));
    assert_eq!((h.items[0].body_id, h.items[0].link_index), (le16(&b, 4), le16(&b, 6) as i16));
    assert_eq!((h.items[1].body_id, h.items[1].link_index), (le16(&b, 16), le16(&b, 18) as i16));
    let k: usize = kani::any();
    kani::assume(k < 2);
    let lo = 28 + 8 * k;
    assert_eq!((h.links[k].parent_index, h.links[k].first_child_index, h.links[k].next_sibling_index, h.links[k].deformer_index),
               (le16(&b, lo) as i16, le16(&b, lo + 2) as i16, le16(&b, lo + 4) as i16, le16(&b, lo + 6)));
    let d0 = &h.items[0].deformer;
    assert_eq!((d0.bone_count, d0.bone_names.len(), d0.transform.len()), (1, 1, 1));
    assert!(d0.bone_names[0].as_bytes() == b"j_ab");
    let j: usize = kani::any();
    kani::assume(j < 12);
    assert_eq!(d0.transform[0][j].to_bits(), le32(&b, 52 + 4 * j));          // 44 + 4 + 2 + 2 (padding)
    let d1 = &h.items[1].deformer;
    assert_eq!((d1.bone_count, d1.bone_names.len(), d1.transform.len()), (2, 2, 2));
    assert!(d1.bone_names[0].as_bytes() == b"n_a" && d1.bone_names[1].as_bytes() == b"n_b");
    assert_eq!(d1.transform[0][j].to_bits(), le32(&b, 113 + 4 * j));         // 105 + 4 + 4, no padding
    assert_eq!(d1.transform[1][j].to_bits(), le32(&b, 161 + 4 * j));
    kani::cover!(true);
    core::mem::forget(pbd);
}
