#![allow(static_mut_refs, unused_imports, dead_code, unused_unsafe)]
// Kani harnesses for src/race.rs (child module of `race`; sees private items).
use super::*;

fn any_race() -> Race {
    let v: u8 = kani::any();
    kani::assume(v >= 1 && v <= 8);
    Race::try_from(v).unwrap()
}
fn any_tribe() -> Tribe {
    let v: u8 = kani::any();
    kani::assume(v >= 1 && v <= 16);
    Tribe::try_from(v).unwrap()
}
fn any_gender() -> Gender {
    let v: u8 = kani::any();
    kani::assume(v <= 1);
    Gender::try_from(v).unwrap()
}

/// Every race owns exactly tribes 2r-1 and 2r (the client's numbering: tribe ids are grouped by race).
#[kani::proof]
#[kani::unwind(4)]
fn c15_own_two_tribes() {
    let r = any_race();
    let t = get_supported_tribes(r);
    assert_eq!(t[0] as u8, 2 * (r as u8) - 1);
    assert_eq!(t[1] as u8, 2 * (r as u8));
    kani::cover!(true);
}

/// A code exists exactly for the valid triples (tribe belongs to race).
#[kani::proof]
#[kani::unwind(4)]
fn c15_race_id_defined_iff_valid() {
    let (r, t, g) = (any_race(), any_tribe(), any_gender());
    let valid = (t as u8 + 1) / 2 == r as u8;
    assert_eq!(get_race_id(r, t, g).is_some(), valid);
    kani::cover!(valid);
    kani::cover!(!valid);
}

/// Distinct body types never share a code.
#[kani::proof]
#[kani::unwind(4)]
fn c15_race_id_injective() {
    let (r1, t1, g1) = (any_race(), any_tribe(), any_gender());
    let (r2, t2, g2) = (any_race(), any_tribe(), any_gender());
    let a = get_race_id(r1, t1, g1.clone());
    let b = get_race_id(r2, t2, g2.clone());
    if a.is_some() && a == b {
        assert!(r1 == r2);
        assert!(g1 == g2);
        if r1 == Race::Hyur {
            assert!(t1 == t2);
        }
    }
    kani::cover!(a.is_some() && a == b);
}

/// The code is the client's cXXXX number: body types are numbered
/// Midlander, Highlander, Elezen, Miqo'te, Roegadyn, Lalafell, Au Ra, Hrothgar, Viera,
/// male = (2k-1)*100+1, female = 2k*100+1.
#[kani::proof]
#[kani::unwind(4)]
fn c15_race_id_table() {
    let (r, t, g) = (any_race(), any_tribe(), any_gender());
    if let Some(code) = get_race_id(r, t, g.clone()) {
        let k: i32 = match r {
            Race::Hyur => if t == Tribe::Midlander { 1 } else { 2 },
            Race::Elezen => 3,
            Race::Miqote => 4,
            Race::Roegadyn => 5,
            Race::Lalafell => 6,
            Race::AuRa => 7,
            Race::Hrothgar => 8,
            Race::Viera => 9,
        };
        let want = (2 * k - 1 + (g as i32)) * 100 + 1;
        assert_eq!(code, want);
        assert!(code >= 0 && code <= 9999);
    }
    kani::cover!(true);
}

#[kani::proof]
#[kani::unwind(4)]
fn c15_try_from_tables() {
    let v: u8 = kani::any();
    match Race::try_from(v) {
        Ok(r) => assert!(r as u8 == v && v >= 1 && v <= 8),
        Err(_) => assert!(v == 0 || v > 8),
    }
    match Tribe::try_from(v) {
        Ok(t) => assert!(t as u8 == v && v >= 1 && v <= 16),
        Err(_) => assert!(v == 0 || v > 16),
    }
    match Gender::try_from(v) {
        Ok(g) => assert!(g as u8 == v && v <= 1),
        Err(_) => assert!(v > 1),
    }
    kani::cover!(true);
}

#[kani::proof]
fn c15_pipeline_witness() {
    let r = any_race();
    let _ = get_supported_tribes(r);
    assert!(false);
}
