#![allow(static_mut_refs, unused_imports, dead_code, unused_unsafe)]
// Kani harnesses for src/repository.rs
use super::*;
use std::cmp::Ordering;

fn repo(t: RepositoryType) -> Repository {
    Repository { name: String::new(), platform: Platform::Win32, repo_type: t, version: None }
}
fn any_type() -> RepositoryType {
    if kani::any() { RepositoryType::Base } else { RepositoryType::Expansion { number: kani::any() } }
}
fn is_base(t: &RepositoryType) -> bool { matches!(t, RepositoryType::Base) }

/// `cmp` is a strict total order on any set of repositories with at most one base repository and
/// distinct expansion numbers: base first, then by number.  (Sorting with a total order gives
/// the same sequence whatever the discovery order; correctness of slice::sort is trusted.)
#[kani::proof]
#[kani::unwind(4)]
fn c15_repository_order_total() {
    let (ta, tb, tc) = (any_type(), any_type(), any_type());
    // at most one base among distinct repositories
    kani::assume(!(is_base(&ta) && is_base(&tb)) && !(is_base(&ta) && is_base(&tc)) && !(is_base(&tb) && is_base(&tc)));
    let (a, b, c) = (repo(ta), repo(tb), repo(tc));
    // antisymmetry
    assert_eq!(a.cmp(&b), b.cmp(&a).reverse());
    // transitivity
    if a.cmp(&b) == Ordering::Less && b.cmp(&c) == Ordering::Less {
        assert!(a.cmp(&c) == Ordering::Less);
    }
    if a.cmp(&b) == Ordering::Equal && b.cmp(&c) == Ordering::Equal {
        assert!(a.cmp(&c) == Ordering::Equal);
    }
    // meaning: base first, expansions by number
    match (ta, tb) {
        (RepositoryType::Base, RepositoryType::Expansion { .. }) => assert!(a.cmp(&b) == Ordering::Less),
        (RepositoryType::Expansion { number: x }, RepositoryType::Expansion { number: y }) => assert!(a.cmp(&b) == x.cmp(&y)),
        _ => {}
    }
    assert!(a.partial_cmp(&b) == Some(a.cmp(&b)));
    kani::cover!(a.cmp(&b) == Ordering::Less);
    kani::cover!(a.cmp(&b) == Ordering::Greater);
    core::mem::forget((a, b, c));
}

fn category_from_index(i: u8) -> Category {
    match i {
        0 => Category::Common, 1 => Category::BackgroundCommon, 2 => Category::Background, 3 => Category::Cutscene,
        4 => Category::Character, 5 => Category::Shader, 6 => Category::UI, 7 => Category::Sound, 8 => Category::VFX,
        9 => Category::UIScript, 10 => Category::EXD, 11 => Category::GameScript, 12 => Category::Music,
        13 => Category::SqPackTest, _ => Category::Debug,
    }
}

/// documented category numbers and directory names
#[kani::proof]
#[kani::unwind(14)]
fn c15_category_table() {
    let i: u8 = kani::any();
    kani::assume(i < 15);
    let c = category_from_index(i);
    let want: u32 = if i <= 12 { i as u32 } else if i == 13 { 0x12 } else { 0x13 };
    assert_eq!(c as u32, want);
    kani::cover!(true);
}
#[kani::proof]
#[kani::unwind(14)]
fn c15_string_to_category_table() {
    assert!(string_to_category("common") == Some(Category::Common));
    assert!(string_to_category("bgcommon") == Some(Category::BackgroundCommon));
    assert!(string_to_category("bg") == Some(Category::Background));
    assert!(string_to_category("cut") == Some(Category::Cutscene));
    assert!(string_to_category("chara") == Some(Category::Character));
    assert!(string_to_category("shader") == Some(Category::Shader));
    assert!(string_to_category("ui") == Some(Category::UI));
    assert!(string_to_category("sound") == Some(Category::Sound));
    assert!(string_to_category("vfx") == Some(Category::VFX));
    assert!(string_to_category("ui_script") == Some(Category::UIScript));
    assert!(string_to_category("exd") == Some(Category::EXD));
    assert!(string_to_category("game_script") == Some(Category::GameScript));
    assert!(string_to_category("music") == Some(Category::Music));
    assert!(string_to_category("sqpack_test") == Some(Category::SqPackTest));
    assert!(string_to_category("debug") == Some(Category::Debug));
    // any other two-letter word is not a category
    let w: [u8; 2] = kani::any();
    kani::assume(w[0] >= b'a' && w[0] <= b'z' && w[1] >= b'a' && w[1] <= b'z');
    let s = unsafe { core::str::from_utf8_unchecked(&w) };
    if !(w == *b"bg" || w == *b"ui") {
        assert!(string_to_category(s).is_none());
    }
    kani::cover!(true);
}

fn platform_from_index(i: u8) -> Platform {
    match i { 0 => Platform::Win32, 1 => Platform::PS3, 2 => Platform::PS4, 3 => Platform::PS5, _ => Platform::Xbox }
}
fn platform_tag(i: u8) -> &'static [u8] {
    match i { 0 => b"win32", 1 => b"ps3", 2 => b"ps4", 3 => b"ps5", _ => b"lys" }
}

#[kani::proof]
#[kani::unwind(8)]
fn c15_platform_strings() {
    let i: u8 = kani::any();
    kani::assume(i < 5);
    let got = get_platform_string(&platform_from_index(i)).as_bytes();
    let want = platform_tag(i);
    assert_eq!(got.len(), want.len());
    let mut k = 0;
    while k < want.len() { assert_eq!(got[k], want[k]); k += 1; }
    kani::cover!(true);
}

fn hex_digit(v: u32) -> u8 { if v < 10 { b'0' + v as u8 } else { b'a' + (v - 10) as u8 } }

/// index / index2 / dat file names: CCEEKK.<platform>.index[2] / .dat<N>
/// (two lower-case hex digits category, two decimal digits expansion, two decimal digits chunk)
fn filenames_case(cat_i: u8, ex: i32, chunk: u8, plat_i: u8, dat: u32) {
    let r = Repository {
        name: String::new(),
        platform: platform_from_index(plat_i),
        repo_type: if ex == 0 { RepositoryType::Base } else { RepositoryType::Expansion { number: ex } },
        version: None,
    };
    let cat = category_from_index(cat_i);
    let catn = cat as u32;
    let tag = platform_tag(plat_i);
    let stem = [hex_digit(catn / 16), hex_digit(catn % 16), b'0' + (ex / 10) as u8, b'0' + (ex % 10) as u8, b'0' + chunk / 10, b'0' + chunk % 10, b'.'];
    let idx = r.index_filename(chunk, cat);
    let b = idx.as_bytes();
    assert_eq!(b.len(), 7 + tag.len() + 6);
    let mut k = 0;
    while k < 7 { assert_eq!(b[k], stem[k]); k += 1; }
    k = 0;
    while k < tag.len() { assert_eq!(b[7 + k], tag[k]); k += 1; }
    let suf = b".index";
    k = 0;
    while k < 6 { assert_eq!(b[7 + tag.len() + k], suf[k]); k += 1; }
    let idx2 = r.index2_filename(chunk, cat);
    let b2 = idx2.as_bytes();
    assert_eq!(b2.len(), b.len() + 1);
    k = 0;
    while k < b.len() { assert_eq!(b2[k], b[k]); k += 1; }
    assert_eq!(b2[b.len()], b'2');
    let datn = r.dat_filename(chunk, cat, dat);
    let bd = datn.as_bytes();
    assert_eq!(bd.len(), 7 + tag.len() + 5);
    k = 0;
    while k < 7 + tag.len() { assert_eq!(bd[k], b[k]); k += 1; }
    let sd = [b'.', b'd', b'a', b't', b'0' + dat as u8];
    k = 0;
    while k < 5 { assert_eq!(bd[7 + tag.len() + k], sd[k]); k += 1; }
    kani::cover!(true);
    core::mem::forget((idx, idx2, datn, r));
}
#[kani::proof]
#[kani::unwind(16)]
fn c15_filenames_concrete_a() { filenames_case(10, 1, 2, 1, 3); }   // 0a0102.ps3.*
#[kani::proof]
#[kani::unwind(16)]
fn c15_filenames_concrete_b() { filenames_case(13, 9, 0, 4, 7); }   // 120900.lys.*
#[kani::proof]
#[kani::unwind(16)]
fn c15_filenames_concrete_c() { filenames_case(4, 0, 9, 0, 0); }    // 040009.win32.*
#[kani::proof]
#[kani::unwind(16)]
fn c15_filenames_symbolic_chunk() {
    let chunk: u8 = kani::any();
    kani::assume(chunk <= 9);
    filenames_case(2, 3, chunk, 2, 1);
}
#[kani::proof]
#[kani::unwind(16)]
fn c15_filenames_symbolic_expansion() {
    let ex: i32 = kani::any();
    kani::assume(ex >= 0 && ex <= 9);
    filenames_case(7, ex, 4, 3, 2);
}
#[kani::proof]
#[kani::unwind(16)]
fn c15_filenames_symbolic_dat() {
    let dat: u32 = kani::any();
    kani::assume(dat <= 7);
    filenames_case(0, 5, 6, 0, dat);
}

/// the same concrete case with loop-free comparisons and a small unwind bound (the formatting
/// machinery recurses through `dyn Write` up to the bound)
#[kani::proof]
#[kani::unwind(4)]
fn c15_filenames_noloop_concrete() {
    let r = Repository { name: String::new(), platform: Platform::PS3, repo_type: RepositoryType::Expansion { number: 1 }, version: None };
    let idx = r.index_filename(2, Category::EXD);
    let b = idx.as_bytes();
    assert_eq!(b.len(), 16);
    assert!(b[0] == b'0' && b[1] == b'a' && b[2] == b'0' && b[3] == b'1' && b[4] == b'0' && b[5] == b'2' && b[6] == b'.');
    assert!(b[7] == b'p' && b[8] == b's' && b[9] == b'3' && b[10] == b'.' && b[11] == b'i' && b[15] == b'x');
    let d = r.dat_filename(2, Category::EXD, 3);
    let e = d.as_bytes();
    assert_eq!(e.len(), 15);
    assert!(e[0] == b'0' && e[1] == b'a' && e[2] == b'0' && e[3] == b'1' && e[4] == b'0' && e[5] == b'2' && e[6] == b'.');
    assert!(e[7] == b'p' && e[8] == b's' && e[9] == b'3' && e[10] == b'.' && e[11] == b'd' && e[14] == b'3');
    core::mem::forget((idx, d, r));
}

#[kani::proof]
fn c15r_pipeline_witness() {
    let a = repo(any_type());
    let b = repo(any_type());
    let _ = a.cmp(&b);
    core::mem::forget((a, b));
    assert!(false);
}

/// every category x expansion 0..9 x chunk 0..9 x data file 0..7 (all symbolic), one platform per harness
fn filenames_all(plat_i: u8) {
    let cat_i: u8 = kani::any();
    kani::assume(cat_i < 15);
    let ex: i32 = kani::any();
    kani::assume(ex >= 0 && ex <= 9);
    let chunk: u8 = kani::any();
    kani::assume(chunk <= 9);
    let dat: u32 = kani::any();
    kani::assume(dat <= 7);
    filenames_case(cat_i, ex, chunk, plat_i, dat);
}
#[kani::proof]
#[kani::unwind(24)]
fn c15_filenames_all_win32() { filenames_all(0); }
#[kani::proof]
#[kani::unwind(24)]
fn c15_filenames_all_ps3() { filenames_all(1); }
#[kani::proof]
#[kani::unwind(24)]
fn c15_filenames_all_ps4() { filenames_all(2); }
#[kani::proof]
#[kani::unwind(24)]
fn c15_filenames_all_ps5() { filenames_all(3); }
#[kani::proof]
#[kani::unwind(24)]
fn c15_filenames_all_lys() { filenames_all(4); }
