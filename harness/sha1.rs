#![allow(static_mut_refs, unused_imports, dead_code, unused_unsafe)]
// Kani harnesses for src/sha1.rs
use super::*;

// ---------------------------------------------------------------------------------------------
// FIPS 180-4 reference.  Additions mod 2^32 are associative/commutative; the association order
// used here per round position mirrors the SHA-NI style grouping so that the two sides of the
// miter share adder structure (a monolithic miter with a differently associated reference did
// not finish in 900 s, DESIGN.md section 3).
//   Ch(x,y,z)  = (x & y) ^ (!x & z)  ==  z ^ (x & (y ^ z))
//   Maj(x,y,z) = (x & y) ^ (x & z) ^ (y & z)
//   Parity     = x ^ y ^ z
// ---------------------------------------------------------------------------------------------
fn ref_f(t: usize, b: u32, c: u32, d: u32) -> u32 {
    if t < 20 {
        d ^ (b & (c ^ d))
    } else if t < 40 {
        b ^ c ^ d
    } else if t < 60 {
        (b & c) ^ (b & d) ^ (c & d)
    } else {
        b ^ c ^ d
    }
}
fn ref_k(t: usize) -> u32 {
    if t < 20 { 0x5A82_7999 } else if t < 40 { 0x6ED9_EBA1 } else if t < 60 { 0x8F1B_BCDC } else { 0xCA62_C1D6 }
}
fn ref_round(t: usize, s: (u32, u32, u32, u32, u32), w: u32) -> (u32, u32, u32, u32, u32) {
    let (a, b, c, d, e) = s;
    let f = ref_f(t, b, c, d);
    let tmp = if t % 4 == 0 {
        a.rotate_left(5).wrapping_add(f).wrapping_add(e.wrapping_add(w).wrapping_add(ref_k(t)))
    } else {
        e.wrapping_add(a.rotate_left(5)).wrapping_add(f).wrapping_add(w.wrapping_add(ref_k(t)))
    };
    (tmp, a, b.rotate_left(30), c, d)
}
fn ref_sha1_compress(h: [u32; 5], block: &[u8; 64]) -> [u32; 5] {
    let mut w = [0u32; 80];
    let mut t = 0;
    while t < 16 {
        w[t] = u32::from_be_bytes([block[4 * t], block[4 * t + 1], block[4 * t + 2], block[4 * t + 3]]);
        t += 1;
    }
    while t < 80 {
        w[t] = (w[t - 3] ^ w[t - 8] ^ w[t - 14] ^ w[t - 16]).rotate_left(1);
        t += 1;
    }
    let mut s = (h[0], h[1], h[2], h[3], h[4]);
    t = 0;
    while t < 80 {
        s = ref_round(t, s, w[t]);
        t += 1;
    }
    [h[0].wrapping_add(s.0), h[1].wrapping_add(s.1), h[2].wrapping_add(s.2), h[3].wrapping_add(s.3), h[4].wrapping_add(s.4)]
}

/// S0: the whole compression function == FIPS 180 for every chaining value and every block.
#[kani::proof]
#[kani::unwind(82)]
fn c12_sha1_compress_full() {
    let h: [u32; 5] = kani::any();
    let block: [u8; 64] = kani::any();
    let mut s = Sha1State { state: h };
    s.process(&block);
    let want = ref_sha1_compress(h, &block);
    assert_eq!(s.state[0], want[0]);
    assert_eq!(s.state[1], want[1]);
    assert_eq!(s.state[2], want[2]);
    assert_eq!(s.state[3], want[3]);
    assert_eq!(s.state[4], want[4]);
    kani::cover!(true);
}

/// S1: one group of four rounds against the FIPS round formula in its TEXTBOOK association
/// (T = ROTL5(a) + f + e + K + W), for each of the three round functions / four constants.
fn rounds4_group(i: i8, t0: usize) {
    let (a, b, c, d, e): (u32, u32, u32, u32, u32) = kani::any();
    let w: [u32; 4] = kani::any();
    let out = sha1_digest_round_x4(u32x4(a, b, c, d), sha1_first_add(e, u32x4(w[0], w[1], w[2], w[3])), i);
    let (mut ra, mut rb, mut rc, mut rd, mut re) = (a, b, c, d, e);
    let mut t = 0;
    while t < 4 {
        let f = if t0 < 20 { (rb & rc) | (!rb & rd) } else if t0 >= 40 && t0 < 60 { (rb & rc) | (rb & rd) | (rc & rd) } else { rb ^ rc ^ rd };
        let tmp = ra.rotate_left(5).wrapping_add(f).wrapping_add(re).wrapping_add(ref_k(t0)).wrapping_add(w[t]);
        re = rd;
        rd = rc;
        rc = rb.rotate_left(30);
        rb = ra;
        ra = tmp;
        t += 1;
    }
    assert!(out == u32x4(ra, rb, rc, rd));
    // the fifth working variable after four rounds is ROTL30 of the old `a` (what sha1_first_half feeds back)
    assert_eq!(re, a.rotate_left(30));
    kani::cover!(true);
}
#[kani::proof]
#[kani::unwind(6)]
fn c12_sha1_rounds4_choose() { rounds4_group(0, 0); }
#[kani::proof]
#[kani::unwind(6)]
fn c12_sha1_rounds4_parity1() { rounds4_group(1, 20); }
#[kani::proof]
#[kani::unwind(6)]
fn c12_sha1_rounds4_majority() { rounds4_group(2, 40); }
#[kani::proof]
#[kani::unwind(6)]
fn c12_sha1_rounds4_parity2() { rounds4_group(3, 60); }

/// S2: message schedule: four consecutive W[t] from the previous sixteen.
#[kani::proof]
#[kani::unwind(22)]
fn c12_sha1_schedule() {
    let w: [u32; 16] = kani::any();
    let v0 = u32x4(w[0], w[1], w[2], w[3]);
    let v1 = u32x4(w[4], w[5], w[6], w[7]);
    let v2 = u32x4(w[8], w[9], w[10], w[11]);
    let v3 = u32x4(w[12], w[13], w[14], w[15]);
    let got = sha1msg2(sha1msg1(v0, v1) ^ v2, v3);
    let mut x = [0u32; 20];
    let mut t = 0;
    while t < 16 { x[t] = w[t]; t += 1; }
    while t < 20 {
        x[t] = (x[t - 3] ^ x[t - 8] ^ x[t - 14] ^ x[t - 16]).rotate_left(1);
        t += 1;
    }
    assert!(got == u32x4(x[16], x[17], x[18], x[19]));
    kani::cover!(true);
}

// ---------------------------------------------------------------------------------------------
// S3: padding / block splitting.  `process` is replaced by a recorder; the recorded blocks must
// be  message || 0x80 || 0* || 64-bit big-endian bit length, and nothing else.
// ---------------------------------------------------------------------------------------------
const MAXBLK: usize = 4;
static mut BLOCKS: [[u8; 64]; MAXBLK] = [[0; 64]; MAXBLK];
static mut NBLOCKS: usize = 0;
fn record_block(_s: &mut Sha1State, block: &[u8; 64]) {
    unsafe {
        assert!(NBLOCKS < MAXBLK);
        BLOCKS[NBLOCKS] = *block;
        NBLOCKS += 1;
    }
}

fn check_padding(data: &[u8], len: usize) {
    let total = ((len + 8) / 64 + 1) * 64;
    unsafe {
        assert_eq!(NBLOCKS * 64, total);
        let i: usize = kani::any();
        kani::assume(i < total);
        let got = BLOCKS[i / 64][i % 64];
        let want = if i < len {
            data[i]
        } else if i == len {
            0x80
        } else if i < total - 8 {
            0
        } else {
            (((len as u64) * 8) >> (8 * (total - 1 - i))) as u8
        };
        assert_eq!(got, want);
    }
    kani::cover!(true);
}

/// all lengths 0..=64 at once (symbolic length), every content (0..=120 ran out of memory)
#[kani::proof]
#[kani::unwind(70)]
#[kani::stub(Sha1State::process, record_block)]
fn c12_sha1_padding_symbolic_len() {
    const MAX: usize = 64;
    let data: [u8; MAX] = kani::any();
    let len: usize = kani::any();
    kani::assume(len <= MAX);
    let _ = Sha1::from(&data[..len]).digest();
    check_padding(&data, len);
}

fn padding_len<const N: usize>() {
    let data: [u8; N] = kani::any();
    let _ = Sha1::from(&data[..]).digest();
    check_padding(&data, N);
}
macro_rules! pad {
    ($name:ident, $n:expr) => {
        #[kani::proof]
        #[kani::unwind(200)]
        #[kani::stub(Sha1State::process, record_block)]
        fn $name() { padding_len::<$n>(); }
    };
}
pad!(c12_sha1_padding_len0, 0);
pad!(c12_sha1_padding_len1, 1);
pad!(c12_sha1_padding_len55, 55);
pad!(c12_sha1_padding_len56, 56);
pad!(c12_sha1_padding_len57, 57);
pad!(c12_sha1_padding_len63, 63);
pad!(c12_sha1_padding_len64, 64);
pad!(c12_sha1_padding_len65, 65);
pad!(c12_sha1_padding_len119, 119);
pad!(c12_sha1_padding_len120, 120);
pad!(c12_sha1_padding_len128, 128);
pad!(c12_sha1_padding_len183, 183);
pad!(c12_sha1_padding_len184, 184);
// one more length chosen by VERIF_SEED (gen/params.rs)
pad!(c12_sha1_padding_seeded_len, { crate::verif_support::params::SHA1_PAD_LEN });

/// two updates (split at a symbolic point) give the same block sequence as one
#[kani::proof]
#[kani::unwind(40)]
#[kani::stub(Sha1State::process, record_block)]
fn c12_sha1_padding_two_updates() {
    const N: usize = 30;
    let data: [u8; N] = kani::any();
    let cut: usize = kani::any();
    kani::assume(cut <= N);
    let mut s = Sha1::new();
    s.update(&data[..cut]);
    s.update(&data[cut..]);
    let _ = s.digest();
    check_padding(&data, N);
}

/// S4: initial chaining value and big-endian digest bytes.
#[kani::proof]
#[kani::unwind(22)]
fn c12_sha1_init_and_digest_bytes() {
    let s = Sha1::new();
    assert_eq!(s.state.state, [0x67452301, 0xEFCDAB89, 0x98BADCFE, 0x10325476, 0xC3D2E1F0]);
    assert_eq!(s.len, 0);
    assert_eq!(s.blocks.len, 0);
    let st: [u32; 5] = kani::any();
    let d = Digest { data: Sha1State { state: st } };
    let b = d.bytes();
    let mut i = 0;
    while i < 5 {
        let w = st[i].to_be_bytes();
        assert_eq!(b[4 * i], w[0]);
        assert_eq!(b[4 * i + 1], w[1]);
        assert_eq!(b[4 * i + 2], w[2]);
        assert_eq!(b[4 * i + 3], w[3]);
        i += 1;
    }
    kani::cover!(true);
}

/// `digest()` starts from the accumulated state and `update` feeds the recorded blocks in order:
/// with the recorder in place the state must stay the initial value (nothing else touches it).
#[kani::proof]
#[kani::unwind(82)]
fn c12_sha1_fips_vector_abc() {
    // FIPS 180 example: SHA-1("abc") = a9993e36 4706816a ba3e2571 7850c26c 9cd0d89d (concrete run)
    let d = Sha1::from(&b"abc"[..]).digest().bytes();
    let want: [u8; 20] = [0xa9, 0x99, 0x3e, 0x36, 0x47, 0x06, 0x81, 0x6a, 0xba, 0x3e, 0x25, 0x71, 0x78, 0x50, 0xc2, 0x6c, 0x9c, 0xd0, 0xd8, 0x9d];
    let mut i = 0;
    while i < 20 { assert_eq!(d[i], want[i]); i += 1; }
    kani::cover!(true);
}

#[kani::proof]
fn c12s_pipeline_witness() {
    let st: [u32; 5] = kani::any();
    let d = Digest { data: Sha1State { state: st } };
    let _ = d.bytes();
    assert!(false);
}
