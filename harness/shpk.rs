#![allow(static_mut_refs, unused_imports, dead_code, unused_unsafe)]
// Kani harnesses for src/shpk.rs
use super::*;

/// selector = sum key_i * 31^i  (mod 2^32)
#[kani::proof]
#[kani::unwind(12)]
fn c14_selector_polynomial() {
    let k: [u32; 10] = kani::any();
    let n: usize = kani::any();
    kani::assume(n <= 10);
    let got = ShaderPackage::build_selector(&k[..n]);
    // 31^i mod 2^32 (31^7 and above no longer fit 32 bits)
    let pow: [u32; 10] = [1, 31, 961, 29791, 923521, 28629151, 887503681, 1742810335, 2487512833, 4098453791];
    let mut want: u32 = 0;
    let mut i = 0;
    while i < n {
        want = want.wrapping_add(k[i].wrapping_mul(pow[i]));
        i += 1;
    }
    assert_eq!(got, want);
    kani::cover!(n == 10);
    kani::cover!(n == 0);
}

/// the selector of four key lists is the polynomial of the four per-list selectors
#[kani::proof]
#[kani::unwind(8)]
fn c14_selector_from_all_keys() {
    let a: [u32; 2] = kani::any();
    let b: [u32; 1] = kani::any();
    let c: [u32; 3] = kani::any();
    let d: [u32; 2] = kani::any();
    let got = ShaderPackage::build_selector_from_all_keys(&a, &b, &c, &d);
    let sa = a[0].wrapping_add(a[1].wrapping_mul(31));
    let sb = b[0];
    let sc = c[0].wrapping_add(c[1].wrapping_mul(31)).wrapping_add(c[2].wrapping_mul(961));
    let sd = d[0].wrapping_add(d[1].wrapping_mul(31));
    let want = sa.wrapping_add(sb.wrapping_mul(31)).wrapping_add(sc.wrapping_mul(961)).wrapping_add(sd.wrapping_mul(29791));
    assert_eq!(got, want);
    assert_eq!(ShaderPackage::build_selector_from_keys(sa, sb, sc, sd), want);
    kani::cover!(true);
}

fn node(selector: u32, tag: u32) -> Node {
    Node { selector, pass_count: tag, pass_indices: [0; 16], system_keys: vec![], scene_keys: vec![], material_keys: vec![], subview_keys: vec![], passes: vec![] }
}
fn package(nodes: Vec<Node>, aliases: Vec<NodeAlias>) -> ShaderPackage {
    let mut p = ShaderPackage {
        version: 0, format: String::new(), file_length: 0, shader_data_offset: 0, strings_offset: 0, vertex_shader_count: 0,
        pixel_shader_count: 0, material_parameters_size: 0, material_parameter_count: 0, has_mat_param_defaults: 0,
        scalar_parameter_count: 0, sampler_count: 0, texture_count: 0, uav_count: 0, system_key_count: 0, scene_key_count: 0,
        material_key_count: 0, node_count: nodes.len() as u32, node_alias_count: aliases.len() as u32, vertex_shaders: vec![],
        pixel_shaders: vec![], material_parameters: vec![], mat_param_defaults: vec![], scalar_parameters: vec![],
        sampler_parameters: vec![], texture_parameters: vec![], uav_parameters: vec![], system_keys: vec![], scene_keys: vec![],
        material_keys: vec![], sub_view_key1_default: 0, sub_view_key2_default: 0, nodes, node_selectors: vec![], node_aliases: aliases,
    };
    // what from_existing does after parsing: nodes first, then aliases
    let mut i = 0;
    while i < p.nodes.len() {
        p.node_selectors.push((p.nodes[i].selector, i as u32));
        i += 1;
    }
    i = 0;
    while i < p.node_aliases.len() {
        p.node_selectors.push((p.node_aliases[i].selector, p.node_aliases[i].node));
        i += 1;
    }
    p
}

/// a selector resolves to the node that carries it, else to the node its alias names;
/// first match in nodes-then-aliases order; None when nothing carries it
#[kani::proof]
#[kani::unwind(8)]
fn c14_find_node_resolution() {
    let s: [u32; 2] = kani::any();
    let a: [u32; 2] = kani::any();
    let t: [u32; 2] = kani::any();
    kani::assume(t[0] < 2 && t[1] < 2);
    let q: u32 = kani::any();
    let p = package(vec![node(s[0], 100), node(s[1], 101)], vec![NodeAlias { selector: a[0], node: t[0] }, NodeAlias { selector: a[1], node: t[1] }]);
    let got = p.find_node(q).map(|n| n.pass_count);
    let want = if q == s[0] { Some(100) } else if q == s[1] { Some(101) } else if q == a[0] { Some(100 + t[0]) } else if q == a[1] { Some(100 + t[1]) } else { None };
    assert_eq!(got, want);
    kani::cover!(q == a[1] && q != s[0] && q != s[1] && q != a[0]);
    kani::cover!(want.is_none());
    core::mem::forget(p);
}

/// an alias that names a node index beyond the node table must not crash the lookup
#[kani::proof]
#[kani::unwind(8)]
fn c18_find_node_alias_out_of_range() {
    let target: u32 = kani::any();
    let q: u32 = kani::any();
    let p = package(vec![node(1, 100)], vec![NodeAlias { selector: 7, node: target }]);
    let _ = p.find_node(q).map(|n| n.pass_count);
    kani::cover!(q == 7 && target >= 1);
    core::mem::forget(p);
}

#[kani::proof]
#[kani::unwind(8)]
fn c14s_pipeline_witness() {
    let k: [u32; 2] = kani::any();
    let _ = ShaderPackage::build_selector(&k);
    assert!(false);
}

// =================================================================================================
// C14: ShaderPackage::from_existing on a generated minimal package: no shaders / resource
// parameters, 1 material parameter, 1 system key, 1 material key, 2 nodes (1 pass each), 1 alias.
// Counts are concrete (shape); every id / key / selector / pass field / alias target is symbolic.
// =================================================================================================
const SP_NODES: usize = 104;
const SP_NODE: usize = 52;
const SP_ALIAS: usize = SP_NODES + 2 * SP_NODE; // 208
const SP_TOTAL: usize = SP_ALIAS + 8;
fn sp_le32(b: &[u8; SP_TOTAL], o: usize) -> u32 { u32::from_le_bytes([b[o], b[o + 1], b[o + 2], b[o + 3]]) }
fn sp_le16(b: &[u8; SP_TOTAL], o: usize) -> u16 { u16::from_le_bytes([b[o], b[o + 1]]) }
fn sp_set32(b: &mut [u8; SP_TOTAL], o: usize, v: u32) { let x = v.to_le_bytes(); b[o] = x[0]; b[o + 1] = x[1]; b[o + 2] = x[2]; b[o + 3] = x[3]; }
fn sp_set16(b: &mut [u8; SP_TOTAL], o: usize, v: u16) { let x = v.to_le_bytes(); b[o] = x[0]; b[o + 1] = x[1]; }

#[kani::proof]
#[kani::unwind(20)]
#[kani::stub(core::str::validations::run_utf8_validation, crate::verif_support::refs::ascii_utf8_validation)]
fn c14_shader_package_from_existing() {
    let mut b: [u8; SP_TOTAL] = kani::any();
    b[0] = b'S'; b[1] = b'h'; b[2] = b'P'; b[3] = b'k';
    b[8] = b'D'; b[9] = b'X'; b[10] = b'1'; b[11] = b'1';
    sp_set32(&mut b, 24, 0); sp_set32(&mut b, 28, 0);          // no vertex / pixel shaders
    sp_set16(&mut b, 36, 1);                                     // one material parameter
    sp_set16(&mut b, 38, 0);                                     // no defaults
    sp_set16(&mut b, 40, 0); sp_set16(&mut b, 44, 0); sp_set16(&mut b, 46, 0); sp_set16(&mut b, 48, 0);
    sp_set32(&mut b, 52, 1); sp_set32(&mut b, 56, 0); sp_set32(&mut b, 60, 1); // system / scene / material key counts
    sp_set32(&mut b, 64, 2); sp_set32(&mut b, 68, 1);          // nodes, aliases
    let mut n = 0;
    while n < 2 { sp_set32(&mut b, SP_NODES + n * SP_NODE + 4, 1); n += 1; } // one pass per node
    let target = sp_le32(&b, SP_ALIAS + 4);
    kani::assume(target <= 2);                                   // 2 = one past the last node
    let pkg = ShaderPackage::from_existing(&b).unwrap();
    // header scalars and tables
    assert_eq!(pkg.version, sp_le32(&b, 4));
    assert!(pkg.format.as_bytes() == b"DX11");
    assert_eq!(pkg.material_parameters_size, sp_le32(&b, 32));
    assert_eq!(pkg.material_parameters.len(), 1);
    assert_eq!((pkg.material_parameters[0].id, pkg.material_parameters[0].byte_offset, pkg.material_parameters[0].byte_size), (sp_le32(&b, 72), sp_le16(&b, 76), sp_le16(&b, 78)));
    assert_eq!((pkg.system_keys.len(), pkg.scene_keys.len(), pkg.material_keys.len()), (1, 0, 1));
    assert_eq!((pkg.system_keys[0].id, pkg.system_keys[0].default_value), (sp_le32(&b, 80), sp_le32(&b, 84)));
    assert_eq!((pkg.material_keys[0].id, pkg.material_keys[0].default_value), (sp_le32(&b, 88), sp_le32(&b, 92)));
    assert_eq!((pkg.sub_view_key1_default, pkg.sub_view_key2_default), (sp_le32(&b, 96), sp_le32(&b, 100)));
    // nodes
    assert_eq!(pkg.nodes.len(), 2);
    let k: usize = kani::any();
    kani::assume(k < 2);
    let o = SP_NODES + k * SP_NODE;
    let nd = &pkg.nodes[k];
    assert_eq!(nd.selector, sp_le32(&b, o));
    assert_eq!(nd.pass_indices[0], b[o + 8]);
    assert_eq!(nd.pass_indices[15], b[o + 23]);
    assert_eq!((nd.system_keys.len(), nd.scene_keys.len(), nd.material_keys.len(), nd.subview_keys.len(), nd.passes.len()), (1, 0, 1, 2, 1));
    assert_eq!(nd.system_keys[0], sp_le32(&b, o + 24));
    assert_eq!(nd.material_keys[0], sp_le32(&b, o + 28));
    assert_eq!((nd.subview_keys[0], nd.subview_keys[1]), (sp_le32(&b, o + 32), sp_le32(&b, o + 36)));
    assert_eq!((nd.passes[0].id, nd.passes[0].vertex_shader, nd.passes[0].pixel_shader), (sp_le32(&b, o + 40), sp_le32(&b, o + 44), sp_le32(&b, o + 48)));
    // selector resolution: nodes in order, then the alias; an alias naming a missing node resolves to nothing
    let q: u32 = kani::any();
    let (s0, s1, sa) = (sp_le32(&b, SP_NODES), sp_le32(&b, SP_NODES + SP_NODE), sp_le32(&b, SP_ALIAS));
    let want: Option<usize> = if q == s0 { Some(0) } else if q == s1 { Some(1) } else if q == sa && target < 2 { Some(target as usize) } else { None };
    match (pkg.find_node(q), want) {
        (Some(nref), Some(i)) => assert!(core::ptr::eq(nref, &pkg.nodes[i])),
        (None, None) => {}
        _ => panic!("selector resolved to the wrong answer"),
    }
    kani::cover!(q == sa && q != s0 && q != s1 && target == 1);
    kani::cover!(q == sa && q != s0 && q != s1 && target == 2);
    kani::cover!(q == s1 && q != s0);
    core::mem::forget(pkg);
}

// -------------------------------------------------------------------------------------------------
// a package with ONE pixel shader that has one UAV and one texture parameter (names in the string
// blob), 4 bytes of bytecode, nothing else: the two parameter lists are read in their stored order
// (scalar, resource, uav, texture) and each name comes from strings_offset + its own offset
// -------------------------------------------------------------------------------------------------
const PS_TOTAL: usize = 140;
#[kani::proof]
#[kani::unwind(20)]
#[kani::stub(core::str::validations::run_utf8_validation, crate::verif_support::refs::ascii_utf8_validation)]
fn c14_shader_package_pixel_shader_parameters() {
    let mut b: [u8; PS_TOTAL] = kani::any();
    let put32 = |b: &mut [u8; PS_TOTAL], o: usize, v: u32| { let x = v.to_le_bytes(); b[o] = x[0]; b[o + 1] = x[1]; b[o + 2] = x[2]; b[o + 3] = x[3]; };
    let put16 = |b: &mut [u8; PS_TOTAL], o: usize, v: u16| { let x = v.to_le_bytes(); b[o] = x[0]; b[o + 1] = x[1]; };
    let le32 = |b: &[u8; PS_TOTAL], o: usize| u32::from_le_bytes([b[o], b[o + 1], b[o + 2], b[o + 3]]);
    let le16 = |b: &[u8; PS_TOTAL], o: usize| u16::from_le_bytes([b[o], b[o + 1]]);
    b[0] = b'S'; b[1] = b'h'; b[2] = b'P'; b[3] = b'k';
    b[8] = b'D'; b[9] = b'X'; b[10] = b'1'; b[11] = b'1';
    put32(&mut b, 16, 128); put32(&mut b, 20, 132);             // shader data offset, strings offset
    put32(&mut b, 24, 0); put32(&mut b, 28, 1);                 // 0 vertex shaders, 1 pixel shader
    put16(&mut b, 36, 0); put16(&mut b, 38, 0); put16(&mut b, 40, 0); put16(&mut b, 44, 0); put16(&mut b, 46, 0); put16(&mut b, 48, 0);
    put32(&mut b, 52, 0); put32(&mut b, 56, 0); put32(&mut b, 60, 0); put32(&mut b, 64, 0); put32(&mut b, 68, 0);
    // the shader: blob at +0, 4 bytes; 0 scalar, 0 resource, 1 uav, 1 texture
    put32(&mut b, 72, 0); put32(&mut b, 76, 4);
    put16(&mut b, 80, 0); put16(&mut b, 82, 0); put16(&mut b, 84, 1); put16(&mut b, 86, 1);
    // uav parameter at 88, texture parameter at 104: id, string offset, string length, unknown, slot, size
    put32(&mut b, 92, 0); put16(&mut b, 96, 4);
    put32(&mut b, 108, 4); put16(&mut b, 112, 4);
    let names = b"uav0tex1";
    let mut i = 0;
    while i < 8 { b[132 + i] = names[i]; i += 1; }
    let pkg = ShaderPackage::from_existing(&b).unwrap();
    assert_eq!((pkg.vertex_shaders.len(), pkg.pixel_shaders.len()), (0, 1));
    let sh = &pkg.pixel_shaders[0];
    assert_eq!((sh.scalar_parameters.len(), sh.resource_parameters.len(), sh.uav_parameters.len(), sh.texture_parameters.len()), (0, 0, 1, 1));
    let (u, t) = (&sh.uav_parameters[0], &sh.texture_parameters[0]);
    assert_eq!((u.id, u.unknown, u.slot, u.size), (le32(&b, 88), le16(&b, 98), le16(&b, 100), le16(&b, 102)));
    assert_eq!((t.id, t.unknown, t.slot, t.size), (le32(&b, 104), le16(&b, 114), le16(&b, 116), le16(&b, 118)));
    assert!(u.name.as_bytes() == b"uav0");
    assert!(t.name.as_bytes() == b"tex1");
    assert_eq!(sh.bytecode.len(), 4);
    assert!(sh.bytecode[0] == b[128] && sh.bytecode[3] == b[131]);
    assert_eq!((pkg.sub_view_key1_default, pkg.sub_view_key2_default), (le32(&b, 120), le32(&b, 124)));
    kani::cover!(true);
    core::mem::forget(pkg);
}

// -------------------------------------------------------------------------------------------------
// C18: a package with ONE node and TWO aliases whose targets are ARBITRARY 32-bit values (damaged
// file): building the selector table and resolving any selector never panics; an alias whose target
// is not a node resolves to nothing, wherever it stands in the alias table
// -------------------------------------------------------------------------------------------------
const DA_TOTAL: usize = SP_NODES + SP_NODE + 16; // 172
#[kani::proof]
#[kani::unwind(20)]
#[kani::stub(core::str::validations::run_utf8_validation, crate::verif_support::refs::ascii_utf8_validation)]
fn c18_shader_package_dangling_aliases() {
    let mut b: [u8; DA_TOTAL] = kani::any();
    let put32 = |b: &mut [u8; DA_TOTAL], o: usize, v: u32| { let x = v.to_le_bytes(); b[o] = x[0]; b[o + 1] = x[1]; b[o + 2] = x[2]; b[o + 3] = x[3]; };
    let put16 = |b: &mut [u8; DA_TOTAL], o: usize, v: u16| { let x = v.to_le_bytes(); b[o] = x[0]; b[o + 1] = x[1]; };
    let le32 = |b: &[u8; DA_TOTAL], o: usize| u32::from_le_bytes([b[o], b[o + 1], b[o + 2], b[o + 3]]);
    b[0] = b'S'; b[1] = b'h'; b[2] = b'P'; b[3] = b'k';
    b[8] = b'D'; b[9] = b'X'; b[10] = b'1'; b[11] = b'1';
    put32(&mut b, 24, 0); put32(&mut b, 28, 0);
    put16(&mut b, 36, 1); put16(&mut b, 38, 0); put16(&mut b, 40, 0); put16(&mut b, 44, 0); put16(&mut b, 46, 0); put16(&mut b, 48, 0);
    put32(&mut b, 52, 1); put32(&mut b, 56, 0); put32(&mut b, 60, 1);
    put32(&mut b, 64, 1); put32(&mut b, 68, 2);                  // one node, two aliases
    put32(&mut b, SP_NODES + 4, 1);                              // one pass
    let a0 = SP_NODES + SP_NODE;
    let (sel0, t0, sel1, t1) = (le32(&b, a0), le32(&b, a0 + 4), le32(&b, a0 + 8), le32(&b, a0 + 12));
    let pkg = ShaderPackage::from_existing(&b).unwrap();
    let q: u32 = kani::any();
    let s0 = le32(&b, SP_NODES);
    let got = pkg.find_node(q);
    let want_some = q == s0 || (q == sel0 && t0 == 0) || (q == sel1 && t1 == 0 && !(q == sel0 && t0 != 0));
    // (when both aliases carry the queried selector, the first one decides)
    match got {
        Some(n) => { assert!(want_some); assert!(core::ptr::eq(n, &pkg.nodes[0])); }
        None => assert!(!want_some),
    }
    kani::cover!(q == sel1 && q != sel0 && q != s0 && t1 == 1);   // dangling second alias naming "node 1" of 1
    kani::cover!(q == sel1 && q != sel0 && q != s0 && t1 == 0 && t0 == 0);
    kani::cover!(q == sel0 && q != s0 && t0 == 0xFFFF_FFFF);
    core::mem::forget(pkg);
}
