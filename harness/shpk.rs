#![allow(static_mut_refs, unused_imports, dead_code, unused_unsafe)]
// Kani harnesses for src/shpk.rs
use super::*;

/// selector = sum key_i * 31^i  (mod 2^32)
#[kani::proof]
#[kani::unwind(12)]
fn c14_selector_polynomial() {
    let k: [u32; 10] = kani::any();
    let n: usize = kani::any();
    kani::assume(n <= 10);
    let got = ShaderPackage::build_selector(&k[..n]);
    // 31^i mod 2^32 (31^7 and above no longer fit 32 bits)
    let pow: [u32; 10] = [1, 31, 961, 29791, 923521, 28629151, 887503681, 1742810335, 2487512833, 4098453791];
    let mut want: u32 = 0;
    let mut i = 0;
    while i < n {
        want = want.wrapping_add(k[i].wrapping_mul(pow[i]));
        i += 1;
    }
    assert_eq!(got, want);
    kani::cover!(n == 10);
    kani::cover!(n == 0);
}

/// the selector of four key lists is the polynomial of the four per-list selectors
#[kani::proof]
#[kani::unwind(8)]
fn c14_selector_from_all_keys() {
    let a: [u32; 2] = kani::any();
    let b: [u32; 1] = kani::any();
    let c: [u32; 3] = kani::any();
    let d: [u32; 2] = kani::any();
    let got = ShaderPackage::build_selector_from_all_keys(&a, &b, &c, &d);
    let sa = a[0].wrapping_add(a[1].wrapping_mul(31));
    let sb = b[0];
    let sc = c[0].wrapping_add(c[1].wrapping_mul(31)).wrapping_add(c[2].wrapping_mul(961));
    let sd = d[0].wrapping_add(d[1].wrapping_mul(31));
    let want = sa.wrapping_add(sb.wrapping_mul(31)).wrapping_add(sc.wrapping_mul(961)).wrapping_add(sd.wrapping_mul(29791));
    assert_eq!(got, want);
    assert_eq!(ShaderPackage::build_selector_from_keys(sa, sb, sc, sd), want);
    kani::cover!(true);
}

fn node(selector: u32, tag: u32) -> Node {
    Node { selector, pass_count: tag, pass_indices: [0; 16], system_keys: vec![], scene_keys: vec![], material_keys: vec![], subview_keys: vec![], passes: vec![] }
}
fn package(nodes: Vec<Node>, aliases: Vec<NodeAlias>) -> ShaderPackage {
    let mut p = ShaderPackage {
        version: 0, format: String::new(), file_length: 0, shader_data_offset: 0, strings_offset: 0, vertex_shader_count: 0,
        pixel_shader_count: 0, material_parameters_size: 0, material_parameter_count: 0, has_mat_param_defaults: 0,
        scalar_parameter_count: 0, sampler_count: 0, texture_count: 0, uav_count: 0, system_key_count: 0, scene_key_count: 0,
        material_key_count: 0, node_count: nodes.len() as u32, node_alias_count: aliases.len() as u32, vertex_shaders: vec![],
        pixel_shaders: vec![], material_parameters: vec![], mat_param_defaults: vec![], scalar_parameters: vec![],
        sampler_parameters: vec![], texture_parameters: vec![], uav_parameters: vec![], system_keys: vec![], scene_keys: vec![],
        material_keys: vec![], sub_view_key1_default: 0, sub_view_key2_default: 0, nodes, node_selectors: vec![], node_aliases: aliases,
    };
    // what from_existing does after parsing: nodes first, then aliases
    let mut i = 0;
    while i < p.nodes.len() {
        p.node_selectors.push((p.nodes[i].selector, i as u32));
        i += 1;
    }
    i = 0;
    while i < p.node_aliases.len() {
        p.node_selectors.push((p.node_aliases[i].selector, p.node_aliases[i].node));
        i += 1;
    }
    p
}

/// a selector resolves to the node that carries it, else to the node its alias names;
/// first match in nodes-then-aliases order; None when nothing carries it
#[kani::proof]
#[kani::unwind(8)]
fn c14_find_node_resolution() {
    let s: [u32; 2] = kani::any();
    let a: [u32; 2] = kani::any();
    let t: [u32; 2] = kani::any();
    kani::assume(t[0] < 2 && t[1] < 2);
    let q: u32 = kani::any();
    let p = package(vec![node(s[0], 100), node(s[1], 101)], vec![NodeAlias { selector: a[0], node: t[0] }, NodeAlias { selector: a[1], node: t[1] }]);
    let got = p.find_node(q).map(|n| n.pass_count);
    let want = if q == s[0] { Some(100) } else if q == s[1] { Some(101) } else if q == a[0] { Some(100 + t[0]) } else if q == a[1] { Some(100 + t[1]) } else { None };
    assert_eq!(got, want);
    kani::cover!(q == a[1] && q != s[0] && q != s[1] && q != a[0]);
    kani::cover!(want.is_none());
    core::mem::forget(p);
}

/// an alias that names a node index beyond the node table must not crash the lookup
#[kani::proof]
#[kani::unwind(8)]
fn c18_find_node_alias_out_of_range() {
    let target: u32 = kani::any();
    let q: u32 = kani::any();
    let p = package(vec![node(1, 100)], vec![NodeAlias { selector: 7, node: target }]);
    let _ = p.find_node(q).map(|n| n.pass_count);
    kani::cover!(q == 7 && target >= 1);
    core::mem::forget(p);
}

#[kani::proof]
#[kani::unwind(8)]
fn c14s_pipeline_witness() {
    let k: [u32; 2] = kani::any();
    let _ = ShaderPackage::build_selector(&k);
    assert!(false);
}
