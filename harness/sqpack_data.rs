#![allow(static_mut_refs, unused_imports, dead_code, unused_unsafe)]
// Kani harnesses for src/sqpack/data.rs: reassembly of standard / model entries from blocks.
// The dat-file handle is an in-memory file (support/memfile.rs, substituted for std::fs::File in
// the scratch copy); entry headers are constructed directly, block layout (counts, offsets,
// lengths) is concrete per harness, block contents are symbolic.
use super::*;
use crate::verif_support::memfile::MemFile;

fn put<const N: usize>(buf: &mut [u8], off: usize, v: [u8; N]) {
    let mut i = 0;
    while i < N { buf[off + i] = v[i]; i += 1; }
}
/// raw block (header size 16, marker 32000) with `content` at `at`
fn put_raw_block<const L: usize>(buf: &mut [u8], at: usize, content: &[u8; L]) {
    put(buf, at, 16u32.to_le_bytes());
    put(buf, at + 8, 32000i32.to_le_bytes());
    put(buf, at + 12, (L as i32).to_le_bytes());
    put(buf, at + 16, *content);
}

/// standard entry: the extracted file is the concatenation of its blocks, in block-table order
/// (here the table lists the blocks in an order different from their position in the file)
#[kani::proof]
#[kani::unwind(20)]
fn c02_standard_file_two_blocks() {
    const ENTRY: usize = 128;   // entry offset inside the dat file
    const HSIZE: usize = 64;    // size of the entry header (blocks are relative to ENTRY + HSIZE)
    let mut img = vec![0u8; ENTRY + HSIZE + 256 + 32];
    // block table right after the 24-byte fixed part of the header: first block at +128, second at +0
    put(&mut img, ENTRY + 24, 128i32.to_le_bytes());
    put(&mut img, ENTRY + 32, 0i32.to_le_bytes());
    let a: [u8; 5] = kani::any();
    let b: [u8; 3] = kani::any();
    put_raw_block(&mut img, ENTRY + HSIZE + 128, &a);
    put_raw_block(&mut img, ENTRY + HSIZE, &b);
    let mut dat = SqPackData { file: MemFile::new(img) };
    dat.file.pos.set((ENTRY + 24) as u64); // where FileInfo::read leaves the cursor
    let info = FileInfo { size: HSIZE as u32, file_type: FileType::Standard, file_size: 8,
        standard_info: Some(StandardFileBlock { num_blocks: 2 }), model_info: None, texture_info: None };
    let out = dat.read_standard_file(ENTRY as u64, &info).unwrap();
    assert_eq!(out.len(), 8);
    assert!(out[0] == a[0] && out[1] == a[1] && out[2] == a[2] && out[3] == a[3] && out[4] == a[4]);
    assert!(out[5] == b[0] && out[6] == b[1] && out[7] == b[2]);
    kani::cover!(true);
    core::mem::forget((out, dat, info));
}

/// a stored zero-length file is a standard entry with an empty block table: it extracts to an empty file (the
/// concatenation of no blocks), not to a failure; symbolic bytes follow the header
#[kani::proof]
#[kani::unwind(44)]
fn c02_standard_file_no_blocks() {
    const ENTRY: usize = 128;
    const HSIZE: usize = 64;
    let mut img = vec![0u8; ENTRY + HSIZE + 32];
    let tail: [u8; 32] = kani::any();
    put(&mut img, ENTRY + HSIZE, tail);
    let rest: [u8; 40] = kani::any();
    put(&mut img, ENTRY + 24, rest);
    let mut dat = SqPackData { file: MemFile::new(img) };
    dat.file.pos.set((ENTRY + 24) as u64);
    let info = FileInfo { size: HSIZE as u32, file_type: FileType::Standard, file_size: 0,
        standard_info: Some(StandardFileBlock { num_blocks: 0 }), model_info: None, texture_info: None };
    let out = dat.read_standard_file(ENTRY as u64, &info);
    assert!(out.is_some());
    let out = out.unwrap();
    assert_eq!(out.len(), 0);
    kani::cover!(true);
    core::mem::forget((out, dat, info));
}

/// texture entry: the extracted file is the texture header followed by every mip level's blocks
/// in order; block positions follow the flat i16 size table (mip 0: blocks of 128 and 256 bytes,
/// mip 1: two blocks of 128 bytes)
/// every block of these entries is stored raw: an attempt to inflate means a block header was read from the wrong
/// place (the real inflate routine on whatever bytes lie there would only make the wrong walk undecidable)
fn inflate_must_not_be_called(_input: &mut [u8], _output: &mut [u8]) -> bool { false }

#[kani::proof]
#[kani::unwind(24)]
#[kani::stub(crate::compression::no_header_decompress, inflate_must_not_be_called)]
fn c02_texture_file_two_mips() {
    const HS: usize = 128;      // entry header size
    const TABLE: usize = 64;    // where FileInfo::read leaves the cursor: the i16 block size table
    const TH: usize = 16;       // texture header bytes in front of the first mip
    let mut img = vec![0u8; HS + TH + 128 + 256 + 128 + 128 + 8];
    put(&mut img, TABLE, 128i16.to_le_bytes());
    put(&mut img, TABLE + 2, 256i16.to_le_bytes());
    put(&mut img, TABLE + 4, 128i16.to_le_bytes());
    put(&mut img, TABLE + 6, 128i16.to_le_bytes());
    let th: [u8; TH] = kani::any();
    put(&mut img, HS, th);
    let a0: [u8; 3] = kani::any();
    let a1: [u8; 2] = kani::any();
    let b0: [u8; 4] = kani::any();
    let b1: [u8; 1] = kani::any();
    put_raw_block(&mut img, HS + TH, &a0);
    put_raw_block(&mut img, HS + TH + 128, &a1);
    put_raw_block(&mut img, HS + TH + 384, &b0);
    put_raw_block(&mut img, HS + TH + 512, &b1);
    let mut dat = SqPackData { file: MemFile::new(img) };
    dat.file.pos.set(TABLE as u64);
    let info = FileInfo { size: HS as u32, file_type: FileType::Texture, file_size: 26, standard_info: None, model_info: None,
        texture_info: Some(TextureBlock { num_blocks: 2, lods: vec![
            TextureLodBlock { compressed_offset: TH as u32, compressed_size: 384, decompressed_size: 5, block_offset: 0, block_count: 2 },
            TextureLodBlock { compressed_offset: (TH + 384) as u32, compressed_size: 256, decompressed_size: 5, block_offset: 2, block_count: 2 },
        ] }) };
    let out = dat.read_texture_file(0, &info).unwrap();
    assert_eq!(out.len(), TH + 3 + 2 + 4 + 1);
    let k: usize = kani::any();
    kani::assume(k < TH);
    assert_eq!(out[k], th[k]);
    assert!(out[TH] == a0[0] && out[TH + 1] == a0[1] && out[TH + 2] == a0[2]);
    assert!(out[TH + 3] == a1[0] && out[TH + 4] == a1[1]);
    assert!(out[TH + 5] == b0[0] && out[TH + 6] == b0[1] && out[TH + 7] == b0[2] && out[TH + 8] == b0[3]);
    assert!(out[TH + 9] == b1[0]);
    kani::cover!(true);
    core::mem::forget((out, dat, info));
}

fn sizes32(stack: u32, runtime: u32, v0: u32, i0: u32) -> ModelMemorySizes<u32> {
    ModelMemorySizes { stack_size: stack, runtime_size: runtime, vertex_buffer_size: [v0, 0, 0], edge_geometry_vertex_buffer_size: [0; 3], index_buffer_size: [i0, 0, 0] }
}
fn sizes16(stack: u16, runtime: u16, v0: u16, i0: u16) -> ModelMemorySizes<u16> {
    ModelMemorySizes { stack_size: stack, runtime_size: runtime, vertex_buffer_size: [v0, 0, 0], edge_geometry_vertex_buffer_size: [0; 3], index_buffer_size: [i0, 0, 0] }
}

/// model entry: stack section 1 block, runtime section 2 blocks, LOD0 vertex 1 block, LOD0 index
/// 1 block.  The extracted file is the 0x44-byte header followed by the sections byte for byte,
/// and the header's sizes / offsets describe them.
#[kani::proof]
#[kani::unwind(72)]
fn c02_model_file_sections() {
    const HSIZE: usize = 256;
    const B: usize = 128; // every block occupies 128 bytes in the file
    let mut img = vec![0u8; HSIZE + 5 * B + 8];
    // block size table (5 x u16) sits where FileInfo::read leaves the cursor
    const TABLE: usize = 100;
    let mut k = 0;
    while k < 5 { put(&mut img, TABLE + 2 * k, (B as u16).to_le_bytes()); k += 1; }
    let stack: [u8; 6] = kani::any();
    let rt0: [u8; 4] = kani::any();
    let rt1: [u8; 7] = kani::any();
    let vtx: [u8; 8] = kani::any();
    let idx: [u8; 4] = kani::any();
    put_raw_block(&mut img, HSIZE, &stack);
    put_raw_block(&mut img, HSIZE + B, &rt0);
    put_raw_block(&mut img, HSIZE + 2 * B, &rt1);
    put_raw_block(&mut img, HSIZE + 3 * B, &vtx);
    put_raw_block(&mut img, HSIZE + 4 * B, &idx);
    let mut dat = SqPackData { file: MemFile::new(img) };
    dat.file.pos.set(TABLE as u64);
    let version: u32 = kani::any();
    let mi = ModelFileBlock {
        num_blocks: 5, num_used_blocks: 5, version,
        uncompressed_size: sizes32(6, 11, 8, 4), compressed_size: sizes32(128, 256, 128, 128),
        offset: sizes32(0, B as u32, 3 * B as u32, 4 * B as u32),
        index: sizes16(0, 1, 3, 4), num: sizes16(1, 2, 1, 1),
        vertex_declaration_num: kani::any(), material_num: kani::any(), num_lods: 1,
        index_buffer_streaming_enabled: false, edge_geometry_enabled: false,
    };
    let (vd, mn) = (mi.vertex_declaration_num, mi.material_num);
    let info = FileInfo { size: HSIZE as u32, file_type: FileType::Model, file_size: 0x44 + 29, standard_info: None, model_info: Some(mi), texture_info: None };
    let out = dat.read_model_file(0, &info).unwrap();
    assert_eq!(out.len(), 0x44 + 6 + 11 + 8 + 4);
    let w = |o: usize| u32::from_le_bytes([out[o], out[o + 1], out[o + 2], out[o + 3]]);
    assert_eq!(w(0), version);
    assert_eq!(w(4), 6);            // stack size
    assert_eq!(w(8), 11);           // runtime size
    assert_eq!(u16::from_le_bytes([out[12], out[13]]), vd);
    assert_eq!(u16::from_le_bytes([out[14], out[15]]), mn);
    assert_eq!(w(16), 0x44 + 17);   // vertex offset LOD0
    assert_eq!(w(28), 0x44 + 25);   // index offset LOD0
    assert_eq!(w(40), 8);           // vertex buffer size LOD0
    assert_eq!(w(52), 4);           // index buffer size LOD0
    assert_eq!(out[64], 1);         // lod count
    let mut i = 0;
    while i < 6 { assert_eq!(out[0x44 + i], stack[i]); i += 1; }
    i = 0;
    while i < 4 { assert_eq!(out[0x44 + 6 + i], rt0[i]); i += 1; }
    i = 0;
    while i < 7 { assert_eq!(out[0x44 + 10 + i], rt1[i]); i += 1; }
    i = 0;
    while i < 8 { assert_eq!(out[0x44 + 17 + i], vtx[i]); i += 1; }
    i = 0;
    while i < 4 { assert_eq!(out[0x44 + 25 + i], idx[i]); i += 1; }
    kani::cover!(true);
    core::mem::forget((out, dat, info));
}

/// smaller model entry: stack 1 block, runtime 2 blocks, no vertex / index data
#[kani::proof]
#[kani::unwind(72)]
fn c02_model_file_stack_runtime() {
    const HSIZE: usize = 128;
    const B: usize = 128;
    let mut img = vec![0u8; HSIZE + 3 * B + 8];
    const TABLE: usize = 100;
    let mut k = 0;
    while k < 3 { put(&mut img, TABLE + 2 * k, (B as u16).to_le_bytes()); k += 1; }
    let stack: [u8; 3] = kani::any();
    let rt0: [u8; 2] = kani::any();
    let rt1: [u8; 4] = kani::any();
    put_raw_block(&mut img, HSIZE, &stack);
    put_raw_block(&mut img, HSIZE + B, &rt0);
    put_raw_block(&mut img, HSIZE + 2 * B, &rt1);
    let mut dat = SqPackData { file: MemFile::new(img) };
    dat.file.pos.set(TABLE as u64);
    let mi = ModelFileBlock {
        num_blocks: 3, num_used_blocks: 3, version: 5,
        uncompressed_size: sizes32(3, 6, 0, 0), compressed_size: sizes32(128, 256, 0, 0),
        offset: sizes32(0, B as u32, 0, 0),
        index: sizes16(0, 1, 3, 3), num: sizes16(1, 2, 0, 0),
        vertex_declaration_num: 0, material_num: 0, num_lods: 1,
        index_buffer_streaming_enabled: false, edge_geometry_enabled: false,
    };
    let info = FileInfo { size: HSIZE as u32, file_type: FileType::Model, file_size: 0x44 + 9, standard_info: None, model_info: Some(mi), texture_info: None };
    let out = dat.read_model_file(0, &info).unwrap();
    assert_eq!(out.len(), 0x44 + 9);
    let w = |o: usize| u32::from_le_bytes([out[o], out[o + 1], out[o + 2], out[o + 3]]);
    assert_eq!(w(4), 3);
    assert_eq!(w(8), 6);
    assert!(out[0x44] == stack[0] && out[0x44 + 2] == stack[2]);
    assert!(out[0x44 + 3] == rt0[0] && out[0x44 + 4] == rt0[1]);
    assert!(out[0x44 + 5] == rt1[0] && out[0x44 + 8] == rt1[3]);
    kani::cover!(true);
    core::mem::forget((out, dat, info));
}

#[kani::proof]
#[kani::unwind(20)]
fn c02d_pipeline_witness() {
    let mut img = vec![0u8; 64];
    let a: [u8; 2] = kani::any();
    put_raw_block(&mut img, 32, &a);
    put(&mut img, 24, 0i32.to_le_bytes());
    let mut dat = SqPackData { file: MemFile::new(img) };
    dat.file.pos.set(24);
    let info = FileInfo { size: 32, file_type: FileType::Standard, file_size: 2, standard_info: Some(StandardFileBlock { num_blocks: 1 }), model_info: None, texture_info: None };
    let out = dat.read_standard_file(0, &info);
    core::mem::forget((out, dat, info));
    assert!(false);
}
