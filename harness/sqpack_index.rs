#![allow(static_mut_refs, unused_imports, dead_code, unused_unsafe)]
// Kani harnesses for src/sqpack/index.rs
use super::*;
use crate::verif_support::refs::{ascii_lower, ascii_lower_model, naive_memrchr, ref_crc_update};
use std::io::Cursor;

/// entry word -> (synonym, dat id, offset): bit 0, bits 1..3, (word with low 4 bits cleared) * 8
#[kani::proof]
#[kani::unwind(6)]
fn c01_file_entry_data_bits() {
    let b: [u8; 4] = kani::any();
    let mut c = Cursor::new(&b[..]);
    let e = FileEntryData::read_options(&mut c, Endian::Little, ()).unwrap();
    let w = u32::from_le_bytes(b);
    assert_eq!(e.is_synonym, w & 1 == 1);
    assert_eq!(e.data_file_id as u32, (w >> 1) & 7);
    assert_eq!(e.offset, ((w >> 4) as u64) * 128);
    assert!(e.offset % 128 == 0 && e.data_file_id < 8);
    kani::cover!(true);
}

/// Index1 file entry: name hash, folder hash, data word, 4 bytes padding (16 bytes)
#[kani::proof]
#[kani::unwind(6)]
fn c01_file_entry_index1_layout() {
    let b: [u8; 16] = kani::any();
    let mut c = Cursor::new(&b[..]);
    let e = FileEntry::read_options(&mut c, Endian::Little, (&IndexType::Index1,)).unwrap();
    let name = u32::from_le_bytes([b[0], b[1], b[2], b[3]]);
    let path = u32::from_le_bytes([b[4], b[5], b[6], b[7]]);
    let w = u32::from_le_bytes([b[8], b[9], b[10], b[11]]);
    assert!(e.hash == Hash::SplitPath { name, path });
    assert_eq!(e.data.offset, ((w >> 4) as u64) * 128);
    assert_eq!(e.data.data_file_id as u32, (w >> 1) & 7);
    assert_eq!(c.position(), 16);
    kani::cover!(true);
}

fn empty_index(t: IndexType) -> SqPackIndex {
    let seg = || SegementDescriptor { count: 0, offset: 0, size: 0, sha1_hash: [0; 20] };
    SqPackIndex {
        sqpack_header: SqPackHeader {
            platform_id: crate::common::Platform::Win32, size: 1024, version: 1,
            file_type: crate::sqpack::SqPackFileType::Index, unk1: 0, unk2: 0,
            region: crate::common::Region::Global, sha1_hash: [0; 20],
        },
        index_header: SqPackIndexHeader {
            size: 1024, file_descriptor: seg(), data_descriptor: seg(), unknown_descriptor: seg(), folder_descriptor: seg(),
            index_type: t, sha1_hash: [0; 20],
        },
        entries: vec![],
        data_entries: vec![],
        folder_entries: vec![],
    }
}

fn any_ascii<const N: usize>() -> [u8; N] {
    let raw: [u8; N] = kani::any();
    let mut i = 0;
    while i < N {
        kani::assume(raw[i] < 128);
        i += 1;
    }
    raw
}
fn lowered<const N: usize>(raw: &[u8; N]) -> [u8; N] {
    let mut low = *raw;
    let mut i = 0;
    while i < N {
        low[i] = ascii_lower(low[i]);
        i += 1;
    }
    low
}

/// partial path hash = JAMCRC of the ASCII-lower-cased bytes (so it ignores letter case)
fn partial_hash<const N: usize>() {
    let raw = any_ascii::<N>();
    let s = unsafe { core::str::from_utf8_unchecked(&raw) };
    let got = SqPackIndex::calculate_partial_hash(s);
    let low = lowered(&raw);
    assert_eq!(got, ref_crc_update(0xFFFF_FFFF, &low));
    // case-insensitivity, stated directly
    let s2 = unsafe { core::str::from_utf8_unchecked(&low) };
    assert_eq!(got, SqPackIndex::calculate_partial_hash(s2));
    kani::cover!(true);
}
#[kani::proof]
#[kani::unwind(10)]
#[kani::stub(str::to_lowercase, ascii_lower_model)]
fn c01_partial_hash_len1() { partial_hash::<1>(); }
#[kani::proof]
#[kani::unwind(10)]
#[kani::stub(str::to_lowercase, ascii_lower_model)]
fn c01_partial_hash_len2() { partial_hash::<2>(); }
#[kani::proof]
#[kani::unwind(10)]
#[kani::stub(str::to_lowercase, ascii_lower_model)]
fn c01_partial_hash_len3() { partial_hash::<3>(); }
#[kani::proof]
#[kani::unwind(10)]
#[kani::stub(str::to_lowercase, ascii_lower_model)]
fn c01_partial_hash_len4() { partial_hash::<4>(); }

/// Index1 hash: folder CRC and file-name CRC split at the LAST '/'; Index2: CRC of the whole path.
/// Path shape: D symbolic ASCII directory bytes (which may themselves contain '/'), a '/', and a
/// concrete file name (a symbolic tail makes the position returned by `rfind` symbolic, and with it
/// every slice length: out of memory); the file names contain upper-case letters.
fn full_hash<const D: usize, const F: usize, const N: usize>(file: &[u8; F]) {
    let dir = any_ascii::<D>();
    let mut raw = [0u8; N];
    let mut i = 0;
    while i < D { raw[i] = dir[i]; i += 1; }
    raw[D] = b'/';
    i = 0;
    while i < F { raw[D + 1 + i] = file[i]; i += 1; }
    let s = unsafe { core::str::from_utf8_unchecked(&raw) };
    let low = lowered(&raw);
    let i1 = empty_index(IndexType::Index1);
    let h1 = i1.calculate_hash(s);
    assert!(h1 == Hash::SplitPath { name: ref_crc_update(0xFFFF_FFFF, &low[D + 1..]), path: ref_crc_update(0xFFFF_FFFF, &low[..D]) });
    let i2 = empty_index(IndexType::Index2);
    let h2 = i2.calculate_hash(s);
    assert!(h2 == Hash::FullPath(ref_crc_update(0xFFFF_FFFF, &low)));
    kani::cover!(true);
    core::mem::forget((i1, i2));
}
#[kani::proof]
#[kani::unwind(12)]
#[kani::stub(str::to_lowercase, ascii_lower_model)]
#[kani::stub(core::slice::memchr::memrchr, naive_memrchr)]
fn c01_full_hash_dir1() { full_hash::<1, 3, 5>(b"a.B"); }
#[kani::proof]
#[kani::unwind(12)]
#[kani::stub(str::to_lowercase, ascii_lower_model)]
#[kani::stub(core::slice::memchr::memrchr, naive_memrchr)]
fn c01_full_hash_dir2() { full_hash::<2, 4, 7>(b"Z9.x"); }
#[kani::proof]
#[kani::unwind(12)]
#[kani::stub(str::to_lowercase, ascii_lower_model)]
#[kani::stub(core::slice::memchr::memrchr, naive_memrchr)]
fn c01_full_hash_dir3() { full_hash::<3, 1, 5>(b"Q"); }

// ---------------------------------------------------------------------------------------------
// find_entry / exists over a small entry table; the path hash is an abstract value.
// ---------------------------------------------------------------------------------------------
static mut Q_HASH: (u32, u32) = (0, 0);
static mut Q_FULL: bool = false;
fn abstract_calculate_hash(_i: &SqPackIndex, _p: &str) -> Hash {
    unsafe {
        if Q_FULL { Hash::FullPath(Q_HASH.0) } else { Hash::SplitPath { name: Q_HASH.0, path: Q_HASH.1 } }
    }
}
fn any_entry(full: bool) -> FileEntry {
    let w: u32 = kani::any();
    FileEntry {
        hash: if full { Hash::FullPath(kani::any()) } else { Hash::SplitPath { name: kani::any(), path: kani::any() } },
        data: FileEntryData { is_synonym: w & 1 == 1, data_file_id: ((w >> 1) & 7) as u8, offset: ((w >> 4) as u64) * 128 },
    }
}
fn find_entry_case(full: bool) {
    let mut idx = empty_index(if full { IndexType::Index2 } else { IndexType::Index1 });
    idx.entries = vec![any_entry(full), any_entry(full), any_entry(full)];
    let q: (u32, u32) = (kani::any(), kani::any());
    unsafe { Q_HASH = q; Q_FULL = full; }
    let qh = if full { Hash::FullPath(q.0) } else { Hash::SplitPath { name: q.0, path: q.1 } };
    let found = idx.find_entry("a/b");
    let ex = idx.exists("a/b");
    let m0 = idx.entries[0].hash == qh;
    let m1 = idx.entries[1].hash == qh;
    let m2 = idx.entries[2].hash == qh;
    assert_eq!(ex, m0 || m1 || m2);
    assert_eq!(found.is_some(), m0 || m1 || m2);
    if let Some(e) = &found {
        let k = if m0 { 0 } else if m1 { 1 } else { 2 };
        assert_eq!(e.data_file_id, idx.entries[k].data.data_file_id);
        assert_eq!(e.offset, idx.entries[k].data.offset);
    }
    kani::cover!(m1 && !m0);
    kani::cover!(!m0 && !m1 && !m2);
    core::mem::forget(idx);
}
#[kani::proof]
#[kani::unwind(6)]
#[kani::stub(SqPackIndex::calculate_hash, abstract_calculate_hash)]
fn c01_find_entry_index1() { find_entry_case(false); }
#[kani::proof]
#[kani::unwind(6)]
#[kani::stub(SqPackIndex::calculate_hash, abstract_calculate_hash)]
fn c01_find_entry_index2() { find_entry_case(true); }

#[kani::proof]
#[kani::unwind(6)]
fn c01i_pipeline_witness() {
    let b: [u8; 4] = kani::any();
    let mut c = Cursor::new(&b[..]);
    let _ = FileEntryData::read_options(&mut c, Endian::Little, ());
    assert!(false);
}
