#![allow(static_mut_refs, unused_imports, dead_code, unused_unsafe)]
// Kani harnesses for src/sqpack/mod.rs (block reader / writer) and the block header of data.rs
use super::*;
use std::io::Cursor;

fn put<const N: usize>(buf: &mut [u8], off: usize, v: [u8; N]) {
    let mut i = 0;
    while i < N {
        buf[off + i] = v[i];
        i += 1;
    }
}

/// block header: size @0, (4 reserved), x @8, y @12; x < 32000 => deflated(x = compressed, y =
/// decompressed length), x == 32000 => raw of length y.  16 bytes are consumed.
/// (Markers above 32000 are not defined by the property and left unconstrained.)
/// The parser peeks one more i32 behind the header (and restores the position), so the buffer
/// carries 4 bytes of block data.
#[kani::proof]
#[kani::unwind(6)]
fn c02_block_header_decode() {
    let b: [u8; 20] = kani::any();
    let mut c = Cursor::new(&b[..]);
    let h = BlockHeader::read(&mut c).unwrap();
    let x = i32::from_le_bytes([b[8], b[9], b[10], b[11]]);
    let y = i32::from_le_bytes([b[12], b[13], b[14], b[15]]);
    assert_eq!(h.size, u32::from_le_bytes([b[0], b[1], b[2], b[3]]));
    assert_eq!(c.position(), 16);
    match h.compression {
        CompressionMode::Compressed { compressed_length, decompressed_length } => {
            assert!(x != 32000);
            if x >= 0 { assert!(x < 32000); }
            assert_eq!((compressed_length, decompressed_length), (x, y));
        }
        CompressionMode::Uncompressed { file_size } => {
            assert!(!(x >= 0 && x < 32000));
            assert_eq!(file_size, y);
        }
    }
    kani::cover!(x == 32000);
    kani::cover!(x >= 16000 && x < 32000);
}

/// block header writer mirrors the reader
#[kani::proof]
#[kani::unwind(6)]
fn c02_block_header_write_layout() {
    let size: u32 = kani::any();
    let raw: bool = kani::any();
    let a: i32 = kani::any();
    let d: i32 = kani::any();
    let h = BlockHeader { size, compression: if raw { CompressionMode::Uncompressed { file_size: d } } else { CompressionMode::Compressed { compressed_length: a, decompressed_length: d } } };
    // the writer also emits the payload of `compression` after the header and then restores the
    // position to 16 (those bytes are overwritten by the block data), so leave room for them
    let mut out = [0xAAu8; 24];
    let mut w = Cursor::new(&mut out[..]);
    h.write(&mut w).unwrap();
    assert_eq!(w.position(), 16);
    assert_eq!(u32::from_le_bytes([out[0], out[1], out[2], out[3]]), size);
    assert_eq!(i32::from_le_bytes([out[8], out[9], out[10], out[11]]), if raw { 32000 } else { a });
    assert_eq!(i32::from_le_bytes([out[12], out[13], out[14], out[15]]), d);
    kani::cover!(raw);
    kani::cover!(!raw);
}

/// raw block of L bytes at a concrete starting position: exactly those L bytes are returned
fn raw_block<const L: usize, const START: usize, const TOTAL: usize>() {
    let mut buf = [0u8; TOTAL];
    put(&mut buf, START, 16u32.to_le_bytes());
    put(&mut buf, START + 8, 32000i32.to_le_bytes());
    put(&mut buf, START + 12, (L as i32).to_le_bytes());
    let content: [u8; L] = kani::any();
    put(&mut buf, START + 16, content);
    // junk after the block
    let mut i = START + 16 + L;
    while i < TOTAL { buf[i] = 0x5A; i += 1; }
    let got = read_data_block(Cursor::new(&buf[..]), START as u64).unwrap();
    assert_eq!(got.len(), L);
    if L > 0 {
        let k: usize = kani::any();
        kani::assume(k < L);
        assert_eq!(got[k], content[k]);
    }
    kani::cover!(true);
    core::mem::forget(got);
}
#[kani::proof]
#[kani::unwind(40)]
fn c02_raw_block_len0() { raw_block::<0, 0, 20>(); }
#[kani::proof]
#[kani::unwind(40)]
fn c02_raw_block_len1_at128() { raw_block::<1, 128, 150>(); }
#[kani::proof]
#[kani::unwind(140)]
fn c02_raw_block_len33_at7() { raw_block::<33, 7, 60>(); }
#[kani::proof]
#[kani::unwind(140)]
fn c02_raw_block_len128_at0() { raw_block::<128, 0, 150>(); }

// deflated block: the inflate routine is an abstract oracle; the reader must hand it exactly the
// `compressed_length` bytes that follow the header and an output buffer of `decompressed_length`
// bytes, and return the oracle's output unchanged.
const MAXC: usize = 128;
static mut ORACLE_IN: [u8; MAXC] = [0; MAXC];
static mut ORACLE_IN_LEN: usize = 0;
static mut ORACLE_OUT_LEN: usize = 0;
static mut ORACLE_OUT: [u8; MAXC] = [0; MAXC];
static mut ORACLE_OK: bool = true;
static mut ORACLE_CALLS: usize = 0;
fn oracle_decompress(in_data: &mut [u8], out_data: &mut [u8]) -> bool {
    unsafe {
        ORACLE_CALLS += 1;
        ORACLE_IN_LEN = in_data.len();
        ORACLE_OUT_LEN = out_data.len();
        let mut i = 0;
        while i < in_data.len() && i < MAXC { ORACLE_IN[i] = in_data[i]; i += 1; }
        i = 0;
        while i < out_data.len() && i < MAXC { out_data[i] = ORACLE_OUT[i]; i += 1; }
        ORACLE_OK
    }
}
fn deflated_block<const CL: usize, const DL: usize, const START: usize, const TOTAL: usize>(patch: bool) {
    let mut buf = [0u8; TOTAL];
    put(&mut buf, START, 16u32.to_le_bytes());
    put(&mut buf, START + 8, (CL as i32).to_le_bytes());
    put(&mut buf, START + 12, (DL as i32).to_le_bytes());
    let stream: [u8; CL] = kani::any();
    put(&mut buf, START + 16, stream);
    let out: [u8; MAXC] = kani::any();
    let ok: bool = kani::any();
    unsafe { ORACLE_OUT = out; ORACLE_OK = ok; }
    let mut cur = Cursor::new(&buf[..]);
    let got = if patch {
        cur.set_position(START as u64);
        read_data_block_patch(&mut cur)
    } else {
        read_data_block(&mut cur, START as u64)
    };
    unsafe {
        assert_eq!(ORACLE_CALLS, 1);
        assert_eq!(ORACLE_OUT_LEN, DL);
        if patch {
            // the patch reader hands over the stream padded to the 128-byte block grid
            assert_eq!(ORACLE_IN_LEN, ((CL + 143) & !127) - 16);
            assert_eq!(cur.position() as usize, START + ((CL + 143) & !127));
        } else {
            assert_eq!(ORACLE_IN_LEN, CL);
        }
        let k: usize = kani::any();
        kani::assume(k < CL);
        assert_eq!(ORACLE_IN[k], stream[k]);
    }
    assert_eq!(got.is_some(), ok);
    if let Some(v) = &got {
        assert_eq!(v.len(), DL);
        let k: usize = kani::any();
        kani::assume(k < DL);
        assert_eq!(v[k], out[k]);
    }
    kani::cover!(ok);
    kani::cover!(!ok);
    core::mem::forget(got);
}
#[kani::proof]
#[kani::unwind(40)]
#[kani::stub(crate::compression::no_header_decompress, oracle_decompress)]
fn c02_deflated_block_contract() { deflated_block::<5, 9, 3, 40>(false); }
#[kani::proof]
#[kani::unwind(40)]
#[kani::stub(crate::compression::no_header_decompress, oracle_decompress)]
fn c02_deflated_block_contract_b() { deflated_block::<12, 4, 0, 30>(false); }

// ------------------------------------------------------------------------------ C03 / C04 / C17
/// patch-embedded raw block: returns the L bytes, consumes (L + 143) & !127 bytes in total when
/// the header says size = padding + 16 (what patch files carry)
fn patch_raw_block<const L: usize, const TOTAL: usize>() {
    let mut buf = [0u8; TOTAL];
    let padded = (L + 143) & !127;
    put(&mut buf, 0, 16u32.to_le_bytes());
    put(&mut buf, 8, 32000i32.to_le_bytes());
    put(&mut buf, 12, (L as i32).to_le_bytes());
    let content: [u8; L] = kani::any();
    put(&mut buf, 16, content);
    let mut cur = Cursor::new(&buf[..]);
    let got = read_data_block_patch(&mut cur).unwrap();
    assert_eq!(got.len(), L);
    let k: usize = kani::any();
    kani::assume(k < L);
    assert_eq!(got[k], content[k]);
    assert_eq!(cur.position() as usize, padded);
    kani::cover!(true);
    core::mem::forget(got);
}
#[kani::proof]
#[kani::unwind(140)]
fn c03_patch_raw_block_len1() { patch_raw_block::<1, 128>(); }
#[kani::proof]
#[kani::unwind(140)]
fn c03_patch_raw_block_len112() { patch_raw_block::<112, 128>(); }
#[kani::proof]
#[kani::unwind(140)]
fn c03_patch_raw_block_len113() { patch_raw_block::<113, 256>(); }
#[kani::proof]
#[kani::unwind(140)]
fn c03_patch_raw_block_len128() { patch_raw_block::<128, 256>(); }

#[kani::proof]
#[kani::unwind(140)]
#[kani::stub(crate::compression::no_header_decompress, oracle_decompress)]
fn c03_patch_deflated_block_len5() { deflated_block::<5, 9, 0, 128>(true); }
#[kani::proof]
#[kani::unwind(260)]
#[kani::stub(crate::compression::no_header_decompress, oracle_decompress)]
fn c03_patch_deflated_block_len112() { deflated_block::<112, 7, 0, 256>(true); }
#[kani::proof]
#[kani::unwind(260)]
#[kani::stub(crate::compression::no_header_decompress, oracle_decompress)]
fn c03_patch_deflated_block_len113() { deflated_block::<113, 7, 128, 512>(true); }

/// C04: what write_data_block_patch emits, read_data_block_patch reads back, consuming exactly
/// the bytes written
fn patch_block_roundtrip<const L: usize, const CAP: usize>() {
    let content: [u8; L] = kani::any();
    let mut data = vec![0u8; L];
    let mut i = 0;
    while i < L { data[i] = content[i]; i += 1; }
    let mut out = [0u8; CAP];
    let mut w = Cursor::new(&mut out[..]);
    write_data_block_patch(&mut w, data);
    let written = w.position() as usize;
    let mut rd = Cursor::new(&out[..]);
    let back = read_data_block_patch(&mut rd).unwrap();
    assert_eq!(back.len(), L);
    let k: usize = kani::any();
    kani::assume(k < L);
    assert_eq!(back[k], content[k]);
    assert_eq!(rd.position() as usize, written);
    kani::cover!(true);
    core::mem::forget(back);
}
#[kani::proof]
#[kani::unwind(260)]
fn c04_patch_block_roundtrip_len1() { patch_block_roundtrip::<1, 160>(); }
#[kani::proof]
#[kani::unwind(260)]
fn c04_patch_block_roundtrip_len111() { patch_block_roundtrip::<111, 300>(); }
#[kani::proof]
#[kani::unwind(260)]
fn c04_patch_block_roundtrip_len112() { patch_block_roundtrip::<112, 300>(); }
#[kani::proof]
#[kani::unwind(260)]
fn c04_patch_block_roundtrip_len113() { patch_block_roundtrip::<113, 300>(); }
#[kani::proof]
#[kani::unwind(260)]
fn c04_patch_block_roundtrip_len128() { patch_block_roundtrip::<128, 300>(); }
#[kani::proof]
#[kani::unwind(260)]
fn c04_patch_block_roundtrip_len240() { patch_block_roundtrip::<240, 500>(); }
/// one more length chosen by VERIF_SEED (gen/params.rs)
#[kani::proof]
#[kani::unwind(260)]
fn c04_patch_block_roundtrip_seeded_len() { patch_block_roundtrip::<{ crate::verif_support::params::PATCH_BLOCK_LEN }, 500>(); }

#[kani::proof]
#[kani::unwind(6)]
fn c02_pipeline_witness() {
    let b: [u8; 20] = kani::any();
    let mut c = Cursor::new(&b[..]);
    let _ = BlockHeader::read(&mut c).unwrap();
    assert!(false);
}

// ------------------------------------------------------------------------------------- C17
/// patch block reader on damaged (attacker-controlled) block headers.  Header fields are concrete
/// per instance (symbolic lengths make the allocation sizes symbolic: no verdict in 600 s); the
/// block content behind the header is symbolic.  The reader must return None / some bytes, never
/// panic.
fn damaged_patch_header(size: u32, x: i32, y: i32) {
    let mut buf: [u8; 56] = kani::any();
    put(&mut buf, 0, size.to_le_bytes());
    put(&mut buf, 4, [0u8; 4]);
    put(&mut buf, 8, x.to_le_bytes());
    put(&mut buf, 12, y.to_le_bytes());
    let mut cur = Cursor::new(&buf[..]);
    let r = read_data_block_patch(&mut cur);
    kani::cover!(true);
    core::mem::forget(r);
}
/// header size field larger than the padded block (deflated block)
#[kani::proof]
#[kani::unwind(70)]
#[kani::stub(crate::compression::no_header_decompress, oracle_decompress)]
fn c17_patch_block_oversized_header_deflated() { damaged_patch_header(200, 5, 9); }
/// header size field larger than the padded block (raw block)
#[kani::proof]
#[kani::unwind(70)]
fn c17_patch_block_oversized_header_raw() { damaged_patch_header(200, 32000, 5); }
/// negative raw length
#[kani::proof]
#[kani::unwind(70)]
fn c17_patch_block_negative_raw_length() { damaged_patch_header(16, 32000, -1); }
/// a sane header over damaged content is fine
#[kani::proof]
#[kani::unwind(70)]
fn c17_patch_block_sane_header() { damaged_patch_header(16, 32000, 20); }
