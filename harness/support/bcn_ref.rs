// Reference block decoders written from the BCn format description (D3D10 "Block Compression").
// Pixels are returned as (r, g, b, a).

pub fn expand565(c: u16) -> (u32, u32, u32) {
    let r = ((c >> 11) & 31) as u32;
    let g = ((c >> 5) & 63) as u32;
    let b = (c & 31) as u32;
    ((r << 3) | (r >> 2), (g << 2) | (g >> 4), (b << 3) | (b >> 2))
}

/// BC1 colour of pixel i (0..16, row-major inside the block). Returns (r,g,b, Some(alpha)) where
/// alpha is None for the black entry of the 3-colour mode (left unconstrained by the property).
pub fn bc1_pixel(data: &[u8], i: usize) -> (u32, u32, u32, Option<u32>) {
    let c0 = u16::from_le_bytes([data[0], data[1]]);
    let c1 = u16::from_le_bytes([data[2], data[3]]);
    let (r0, g0, b0) = expand565(c0);
    let (r1, g1, b1) = expand565(c1);
    let bits = u32::from_le_bytes([data[4], data[5], data[6], data[7]]);
    let sel = (bits >> (2 * i)) & 3;
    match sel {
        0 => (r0, g0, b0, Some(255)),
        1 => (r1, g1, b1, Some(255)),
        2 => {
            if c0 > c1 {
                ((2 * r0 + r1) / 3, (2 * g0 + g1) / 3, (2 * b0 + b1) / 3, Some(255))
            } else {
                ((r0 + r1) / 2, (g0 + g1) / 2, (b0 + b1) / 2, Some(255))
            }
        }
        _ => {
            if c0 > c1 {
                ((r0 + 2 * r1) / 3, (g0 + 2 * g1) / 3, (b0 + 2 * b1) / 3, Some(255))
            } else {
                (0, 0, 0, None)
            }
        }
    }
}

/// BC3-style 8-byte interpolated single channel block: value of pixel i.
pub fn bc4_value(data: &[u8], i: usize) -> u32 {
    let a0 = data[0] as u32;
    let a1 = data[1] as u32;
    let mut bits: u64 = 0;
    let mut k = 0;
    while k < 6 {
        bits |= (data[2 + k] as u64) << (8 * k);
        k += 1;
    }
    let sel = ((bits >> (3 * i)) & 7) as u32;
    if sel == 0 {
        return a0;
    }
    if sel == 1 {
        return a1;
    }
    if a0 > a1 {
        ((8 - sel) * a0 + (sel - 1) * a1) / 7
    } else if sel == 6 {
        0
    } else if sel == 7 {
        255
    } else {
        ((6 - sel) * a0 + (sel - 1) * a1) / 5
    }
}

/// split a BGRA-in-u32 pixel (as produced by the block decoders) into (r, g, b, a)
pub fn unpack_bgra(px: u32) -> (u32, u32, u32, u32) {
    ((px >> 16) & 0xff, (px >> 8) & 0xff, px & 0xff, px >> 24)
}
