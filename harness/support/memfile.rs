// In-memory stand-in for std::fs::File (environment model): a byte vector with a shared cursor.
// `&MemFile` implements Read + Seek exactly like `&File` does, so code written against a file
// handle runs unchanged.  Used only by the sqpack_data harnesses, through a textual substitution
// of the `file: std::fs::File` field in the scratch copy (registry.TRANSFORMS).
use std::cell::Cell;
use std::io::{Read, Result, Seek, SeekFrom};

pub struct MemFile {
    pub data: Vec<u8>,
    pub pos: Cell<u64>,
}

impl MemFile {
    pub fn new(data: Vec<u8>) -> Self {
        MemFile { data, pos: Cell::new(0) }
    }
    /// there is no file system under Kani: opening by path always fails
    pub fn open(_path: &str) -> Option<Self> {
        None
    }
    fn do_read(&self, buf: &mut [u8]) -> usize {
        let p = self.pos.get() as usize;
        let avail = if p < self.data.len() { self.data.len() - p } else { 0 };
        let n = if buf.len() < avail { buf.len() } else { avail };
        let mut i = 0;
        while i < n {
            buf[i] = self.data[p + i];
            i += 1;
        }
        self.pos.set((p + n) as u64);
        n
    }
    fn do_seek(&self, to: SeekFrom) -> u64 {
        let np = match to {
            SeekFrom::Start(x) => x,
            SeekFrom::Current(d) => (self.pos.get() as i64 + d) as u64,
            SeekFrom::End(d) => (self.data.len() as i64 + d) as u64,
        };
        self.pos.set(np);
        np
    }
}
impl Read for MemFile {
    fn read(&mut self, buf: &mut [u8]) -> Result<usize> { Ok(self.do_read(buf)) }
}
impl Read for &MemFile {
    fn read(&mut self, buf: &mut [u8]) -> Result<usize> { Ok(self.do_read(buf)) }
}
impl Seek for MemFile {
    fn seek(&mut self, to: SeekFrom) -> Result<u64> { Ok(self.do_seek(to)) }
}
impl Seek for &MemFile {
    fn seek(&mut self, to: SeekFrom) -> Result<u64> { Ok(self.do_seek(to)) }
}
