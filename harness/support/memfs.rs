// In-memory stand-in for the parts of std::fs that src/patch.rs uses (environment model).
//
// A flat table of NF regular files (full path name -> bytes) plus one read-only "patch file".
// Directories are implicit: a directory exists when some file lives under it or when it was
// created with create_dir_all (recorded in a small list).  Every operation does what the
// documented std::fs call does on a POSIX file system for the cases the harnesses exercise:
//   OpenOptions{write,create,!truncate}.open  creates an empty file if absent, keeps content otherwise
//   write past the end                        zero-fills the gap (sparse file semantics)
//   set_len(n)                                truncates / zero-extends
//   remove_file                               NotFound when absent
//   read_dir                                  immediate children (files, then sub-directories once each)
// Wired in through registry.TRANSFORMS (the `use std::fs...` lines of the scratch copy of
// src/patch.rs); /repo itself is never edited.
#![allow(dead_code, static_mut_refs)]
use std::cell::Cell;
use std::io::{self, Read, Seek, SeekFrom, Write};
use std::path::{Path, PathBuf};

pub const NF: usize = 3;
pub const NAME_CAP: usize = 64;
pub const FCAP: usize = 2304;
pub const PATCH_CAP: usize = 1536;
pub const ND: usize = 6;

pub struct FsState {
    pub used: [bool; NF],
    pub name: [[u8; NAME_CAP]; NF],
    pub name_len: [usize; NF],
    pub data: [[u8; FCAP]; NF],
    pub len: [usize; NF],
    pub patch: [u8; PATCH_CAP],
    pub patch_len: usize,
    pub patch_name: [u8; NAME_CAP],
    pub patch_name_len: usize,
    pub dir: [[u8; NAME_CAP]; ND],
    pub dir_len: [usize; ND],
    pub ndirs: usize,
    /// ghost: number of write / set_len / remove operations performed, and a model-limit flag
    pub mutations: usize,
    pub limit_hit: bool,
}

pub static mut FS: FsState = FsState {
    used: [false; NF], name: [[0; NAME_CAP]; NF], name_len: [0; NF], data: [[0; FCAP]; NF], len: [0; NF],
    patch: [0; PATCH_CAP], patch_len: 0, patch_name: [0; NAME_CAP], patch_name_len: 0,
    dir: [[0; NAME_CAP]; ND], dir_len: [0; ND], ndirs: 0, mutations: 0, limit_hit: false,
};

fn fs() -> &'static mut FsState { unsafe { &mut FS } }

fn not_found() -> io::Error { io::Error::from(io::ErrorKind::NotFound) }

fn name_eq(slot: usize, p: &[u8]) -> bool {
    let s = fs();
    if !s.used[slot] || s.name_len[slot] != p.len() { return false; }
    let mut i = 0;
    while i < p.len() { if s.name[slot][i] != p[i] { return false; } i += 1; }
    true
}
fn path_bytes<'a>(p: &'a Path) -> &'a [u8] { p.as_os_str().as_encoded_bytes() }

/// slot of the regular file called `p`
pub fn lookup(p: &[u8]) -> Option<usize> {
    let mut i = 0;
    while i < NF { if name_eq(i, p) { return Some(i); } i += 1; }
    None
}
fn is_patch(p: &[u8]) -> bool {
    let s = fs();
    if s.patch_name_len == 0 || s.patch_name_len != p.len() { return false; }
    let mut i = 0;
    while i < p.len() { if s.patch_name[i] != p[i] { return false; } i += 1; }
    true
}
fn create_slot(p: &[u8]) -> Option<usize> {
    let s = fs();
    if p.len() > NAME_CAP { s.limit_hit = true; return None; }
    let mut i = 0;
    while i < NF {
        if !s.used[i] {
            s.used[i] = true;
            s.name_len[i] = p.len();
            let mut k = 0;
            while k < p.len() { s.name[i][k] = p[k]; k += 1; }
            s.len[i] = 0;
            s.mutations += 1;
            return Some(i);
        }
        i += 1;
    }
    s.limit_hit = true;
    None
}

// ---------------------------------------------------------------- harness-side helpers
pub fn reset() {
    let s = fs();
    let mut i = 0;
    while i < NF { s.used[i] = false; s.len[i] = 0; s.name_len[i] = 0; i += 1; }
    s.patch_len = 0; s.patch_name_len = 0; s.ndirs = 0; s.mutations = 0; s.limit_hit = false;
}
/// the harness writes the patch file byte by byte (stores at concrete indices keep concrete bytes constant for
/// symbolic execution; a bulk copy of a buffer that holds some symbolic bytes would not)
pub fn patch_begin(name: &str) {
    let s = fs();
    s.patch_len = 0;
    let n = name.as_bytes();
    let mut i = 0;
    while i < n.len() { s.patch_name[i] = n[i]; i += 1; }
    s.patch_name_len = n.len();
}
pub fn patch_push(b: u8) {
    let s = fs();
    s.patch[s.patch_len] = b;
    s.patch_len += 1;
}
pub fn patch_len() -> usize { fs().patch_len }
pub fn patch_truncate(n: usize) { fs().patch_len = n; }
pub fn install_patch(name: &str, bytes: &[u8]) {
    let s = fs();
    assert!(bytes.len() <= PATCH_CAP && name.len() <= NAME_CAP);
    s.patch[..bytes.len()].copy_from_slice(bytes);
    s.patch_len = bytes.len();
    let n = name.as_bytes();
    let mut i = 0;
    while i < n.len() { s.patch_name[i] = n[i]; i += 1; }
    s.patch_name_len = n.len();
}
/// pre-existing file (content copied in)
pub fn add_file(name: &str, bytes: &[u8]) -> usize {
    let slot = create_slot(name.as_bytes()).unwrap();
    let s = fs();
    assert!(bytes.len() <= FCAP);
    s.data[slot][..bytes.len()].copy_from_slice(bytes);
    s.len[slot] = bytes.len();
    slot
}
pub fn find(name: &str) -> Option<usize> { lookup(name.as_bytes()) }
pub fn file_len(slot: usize) -> usize { fs().len[slot] }
pub fn file_byte(slot: usize, i: usize) -> u8 { fs().data[slot][i] }
pub fn file_count() -> usize { let s = fs(); let mut n = 0; let mut i = 0; while i < NF { if s.used[i] { n += 1; } i += 1; } n }
pub fn limit_hit() -> bool { fs().limit_hit }
pub fn mutation_count() -> usize { fs().mutations }
pub fn dir_created(name: &str) -> bool {
    let s = fs();
    let p = name.as_bytes();
    let mut d = 0;
    while d < ND {
        if d < s.ndirs && s.dir_len[d] == p.len() {
            let mut same = true;
            let mut i = 0;
            while i < p.len() { if s.dir[d][i] != p[i] { same = false; } i += 1; }
            if same { return true; }
        }
        d += 1;
    }
    false
}

// ---------------------------------------------------------------- std::fs look-alikes
// plain integer fields only: a `bool` would offer a niche, `io::Result<File>` would then keep its discriminant inside
// the File, and after `File::open(..)?` CBMC no longer sees the flags as constants
pub struct File { slot: usize, patch: usize, pos: Cell<u64>, writable: usize }

impl File {
    pub fn open<P: AsRef<Path>>(p: P) -> io::Result<File> {
        let b = path_bytes(p.as_ref());
        if is_patch(b) { return Ok(File { slot: 0, patch: 1, pos: Cell::new(0), writable: 0 }); }
        match lookup(b) { Some(slot) => Ok(File { slot, patch: 0, pos: Cell::new(0), writable: 0 }), None => Err(not_found()) }
    }
    pub fn create<P: AsRef<Path>>(p: P) -> io::Result<File> {
        OpenOptions::new().write(true).create(true).truncate(true).open(p)
    }
    pub fn set_len(&self, n: u64) -> io::Result<()> {
        let s = fs();
        if self.patch != 0 || self.writable == 0 { return Err(io::Error::from(io::ErrorKind::PermissionDenied)); }
        let n = n as usize;
        if n > FCAP { s.limit_hit = true; return Ok(()); }
        let cur = s.len[self.slot];
        if n > cur { unsafe { core::ptr::write_bytes(s.data[self.slot].as_mut_ptr().add(cur), 0, n - cur); } }
        s.len[self.slot] = n;
        s.mutations += 1;
        Ok(())
    }
    pub fn metadata(&self) -> io::Result<Metadata> {
        let s = fs();
        let total = if self.patch != 0 { s.patch_len } else { s.len[self.slot] };
        Ok(Metadata { dir: 0, len: total as u64 })
    }
    pub fn sync_all(&self) -> io::Result<()> { Ok(()) }
    pub fn sync_data(&self) -> io::Result<()> { Ok(()) }
    fn do_read(&self, buf: &mut [u8]) -> usize {
        let s = fs();
        let p = self.pos.get() as usize;
        let total = if self.patch != 0 { s.patch_len } else { s.len[self.slot] };
        let avail = if p < total { total - p } else { 0 };
        let n = if buf.len() < avail { buf.len() } else { avail };
        // bounded by the (concrete) request size rather than by `n`: after binrw's try-a-variant-and-rewind
        // the position can be an if-then-else term, and a loop bounded by it would unroll to the unwind limit
        let mut i = 0;
        while i < buf.len() {
            if i < n { buf[i] = if self.patch != 0 { s.patch[p + i] } else { s.data[self.slot][p + i] }; }
            i += 1;
        }
        self.pos.set((p + n) as u64);
        n
    }
    fn do_write(&self, buf: &[u8]) -> io::Result<usize> {
        let s = fs();
        if self.patch != 0 || self.writable == 0 { return Err(io::Error::from(io::ErrorKind::PermissionDenied)); }
        let p = self.pos.get() as usize;
        // beyond the model's capacity: flagged (the harnesses assert !limit_hit) and ignored -- returning an io::Error
        // on a condition that is symbolic would pull io::Error's recursive drop glue into every caller
        if p > FCAP || buf.len() > FCAP - p { s.limit_hit = true; return Ok(buf.len()); }
        // sparse-file semantics: a gap between the old end and the write position reads as zeros
        let old = s.len[self.slot];
        if p > old {
            unsafe { core::ptr::write_bytes(s.data[self.slot].as_mut_ptr().add(old), 0, p - old); }
        }
        // file contents are never field-sensitive (FCAP is above the limit the harnesses pass): a bulk copy is fine here
        s.data[self.slot][p..p + buf.len()].copy_from_slice(buf);
        if p + buf.len() > old { s.len[self.slot] = p + buf.len(); }
        self.pos.set((p + buf.len()) as u64);
        s.mutations += 1;
        Ok(buf.len())
    }
    fn do_seek(&self, to: SeekFrom) -> io::Result<u64> {
        let s = fs();
        let total = if self.patch != 0 { s.patch_len } else { s.len[self.slot] } as i64;
        let np = match to {
            SeekFrom::Start(x) => x as i64,
            SeekFrom::Current(d) => self.pos.get() as i64 + d,
            SeekFrom::End(d) => total + d,
        };
        // a negative target is an error in std; here it is flagged as outside the model (see do_write)
        if np < 0 { s.limit_hit = true; return Ok(self.pos.get()); }
        self.pos.set(np as u64);
        Ok(np as u64)
    }
}
impl Read for File { fn read(&mut self, buf: &mut [u8]) -> io::Result<usize> { Ok(self.do_read(buf)) } }
impl Read for &File { fn read(&mut self, buf: &mut [u8]) -> io::Result<usize> { Ok(self.do_read(buf)) } }
impl Seek for File { fn seek(&mut self, to: SeekFrom) -> io::Result<u64> { self.do_seek(to) } }
impl Seek for &File { fn seek(&mut self, to: SeekFrom) -> io::Result<u64> { self.do_seek(to) } }
// write_all is provided directly: a regular file accepts the whole buffer in one write, and std's default
// write_all would keep a "wrote 0 bytes" error branch alive whenever the length is symbolic
impl Write for File {
    fn write(&mut self, buf: &[u8]) -> io::Result<usize> { self.do_write(buf) }
    fn write_all(&mut self, buf: &[u8]) -> io::Result<()> { match self.do_write(buf) { Ok(_) => Ok(()), Err(e) => Err(e) } }
    fn flush(&mut self) -> io::Result<()> { Ok(()) }
}
impl Write for &File {
    fn write(&mut self, buf: &[u8]) -> io::Result<usize> { self.do_write(buf) }
    fn write_all(&mut self, buf: &[u8]) -> io::Result<()> { match self.do_write(buf) { Ok(_) => Ok(()), Err(e) => Err(e) } }
    fn flush(&mut self) -> io::Result<()> { Ok(()) }
}

pub struct OpenOptions { w: bool, c: bool, t: bool, r: bool }
impl OpenOptions {
    pub fn new() -> Self { OpenOptions { w: false, c: false, t: false, r: false } }
    pub fn write(&mut self, v: bool) -> &mut Self { self.w = v; self }
    pub fn read(&mut self, v: bool) -> &mut Self { self.r = v; self }
    pub fn create(&mut self, v: bool) -> &mut Self { self.c = v; self }
    pub fn truncate(&mut self, v: bool) -> &mut Self { self.t = v; self }
    pub fn open<P: AsRef<Path>>(&self, p: P) -> io::Result<File> {
        let b = path_bytes(p.as_ref());
        if is_patch(b) { return Ok(File { slot: 0, patch: 1, pos: Cell::new(0), writable: 0 }); }
        let slot = match lookup(b) {
            Some(s) => s,
            None => {
                if !(self.c && self.w) { return Err(not_found()); }
                match create_slot(b) { Some(s) => s, None => return Err(io::Error::from(io::ErrorKind::Other)) }
            }
        };
        if self.t && self.w { fs().len[slot] = 0; fs().mutations += 1; }
        Ok(File { slot, patch: 0, pos: Cell::new(0), writable: self.w as usize })
    }
}

pub fn create_dir_all<P: AsRef<Path>>(p: P) -> io::Result<()> {
    let b = path_bytes(p.as_ref());
    let s = fs();
    if b.len() > NAME_CAP || s.ndirs >= ND { s.limit_hit = true; return Err(io::Error::from(io::ErrorKind::Other)); }
    // a regular file of that name is in the way
    if lookup(b).is_some() { return Err(io::Error::from(io::ErrorKind::AlreadyExists)); }
    let d = s.ndirs;
    let mut i = 0;
    while i < b.len() { s.dir[d][i] = b[i]; i += 1; }
    s.dir_len[d] = b.len();
    s.ndirs += 1;
    s.mutations += 1;
    Ok(())
}
pub fn remove_file<P: AsRef<Path>>(p: P) -> io::Result<()> {
    match lookup(path_bytes(p.as_ref())) {
        Some(slot) => { fs().used[slot] = false; fs().mutations += 1; Ok(()) }
        None => Err(not_found()),
    }
}
fn under(slot: usize, dir: &[u8]) -> bool {
    // file `slot` lives (at any depth) under directory `dir`
    let s = fs();
    if !s.used[slot] || s.name_len[slot] <= dir.len() + 1 { return false; }
    let mut i = 0;
    while i < dir.len() { if s.name[slot][i] != dir[i] { return false; } i += 1; }
    s.name[slot][dir.len()] == b'/'
}
fn dir_exists(dir: &[u8]) -> bool {
    let mut i = 0;
    while i < NF { if under(i, dir) { return true; } i += 1; }
    let s = fs();
    let mut d = 0;
    while d < ND {
        if d < s.ndirs && s.dir_len[d] >= dir.len() {
            let mut same = true;
            let mut k = 0;
            while k < dir.len() { if s.dir[d][k] != dir[k] { same = false; } k += 1; }
            if same && (s.dir_len[d] == dir.len() || s.dir[d][dir.len()] == b'/') { return true; }
        }
        d += 1;
    }
    false
}
pub fn remove_dir_all<P: AsRef<Path>>(p: P) -> io::Result<()> {
    let b = path_bytes(p.as_ref());
    if !dir_exists(b) { return Err(not_found()); }
    let mut i = 0;
    while i < NF { if under(i, b) { fs().used[i] = false; fs().mutations += 1; } i += 1; }
    let s = fs();
    let mut d = 0;
    while d < ND { if d < s.ndirs { s.dir_len[d] = if s.dir_len[d] >= b.len() && dir_exists_prefix(d, b) { 0 } else { s.dir_len[d] }; } d += 1; }
    Ok(())
}
fn dir_exists_prefix(d: usize, b: &[u8]) -> bool {
    let s = fs();
    let mut k = 0;
    while k < b.len() { if s.dir[d][k] != b[k] { return false; } k += 1; }
    s.dir_len[d] == b.len() || s.dir[d][b.len()] == b'/'
}

// integer flag, not bool: a bool would give `io::Result<Metadata>` a niche layout (see File)
pub struct Metadata { dir: usize, len: u64 }
impl Metadata {
    pub fn is_dir(&self) -> bool { self.dir != 0 }
    pub fn is_file(&self) -> bool { self.dir == 0 }
    pub fn len(&self) -> u64 { self.len }
}
pub fn metadata<P: AsRef<Path>>(p: P) -> io::Result<Metadata> {
    let b = path_bytes(p.as_ref());
    if let Some(slot) = lookup(b) { return Ok(Metadata { dir: 0, len: fs().len[slot] as u64 }); }
    if dir_exists(b) { return Ok(Metadata { dir: 1, len: 0 }); }
    Err(not_found())
}
// `fs::read` returns a plain struct with the methods patch.rs calls on the result, not `io::Result<Vec<u8>>`: that Result
// gets rustc's multi-variant niche layout (discriminant in the spare values of Vec's capacity), which Kani models as a
// union -- the length of the returned Vec would no longer be a constant for symbolic execution (DESIGN.md, R11)
pub struct ReadResult { found: usize, data: Vec<u8> }
impl ReadResult {
    pub fn unwrap(self) -> Vec<u8> { if self.found == 0 { panic!("called `Result::unwrap()` on an `Err` value: NotFound"); } self.data }
    pub fn ok(self) -> Option<Vec<u8>> { if self.found == 0 { None } else { Some(self.data) } }
    pub fn is_ok(&self) -> bool { self.found != 0 }
    pub fn is_err(&self) -> bool { self.found == 0 }
}
pub fn read<P: AsRef<Path>>(p: P) -> ReadResult {
    match lookup(path_bytes(p.as_ref())) {
        Some(slot) => {
            let s = fs();
            let n = s.len[slot];
            let mut v = Vec::with_capacity(n);
            let mut i = 0;
            while i < n { v.push(s.data[slot][i]); i += 1; }
            ReadResult { found: 1, data: v }
        }
        None => ReadResult { found: 0, data: Vec::new() },
    }
}

// integer fields only (no PathBuf, no bool, no Vec): `io::Result<DirEntry>` / `io::Result<ReadDir>` must not have a niche to use
#[derive(Clone, Copy)]
pub struct DirEntry { slot: usize, end: usize, dir: usize, len: u64 }
impl DirEntry {
    pub fn metadata(&self) -> io::Result<Metadata> { Ok(Metadata { dir: self.dir, len: self.len }) }
    pub fn path(&self) -> PathBuf { PathBuf::from(unsafe { core::str::from_utf8_unchecked(&fs().name[self.slot][..self.end]) }) }
}
pub struct ReadDir { items: [DirEntry; NF], n: usize, next: usize }
impl Iterator for ReadDir {
    type Item = io::Result<DirEntry>;
    fn next(&mut self) -> Option<io::Result<DirEntry>> {
        if self.next >= self.n { return None; }
        let e = self.items[self.next];
        self.next += 1;
        Some(Ok(e))
    }
}
/// immediate children of `p`: regular files directly inside it, and each sub-directory once
pub fn read_dir<P: AsRef<Path>>(p: P) -> io::Result<ReadDir> {
    let b = path_bytes(p.as_ref());
    if !dir_exists(b) { return Err(not_found()); }
    let s = fs();
    let mut items = [DirEntry { slot: 0, end: 0, dir: 0, len: 0 }; NF];
    let mut n = 0;
    let mut i = 0;
    while i < NF {
        if under(i, b) {
            // end of the first component after `dir/`
            let start = b.len() + 1;
            let mut end = start;
            while end < s.name_len[i] && s.name[i][end] != b'/' { end += 1; }
            let is_file = end == s.name_len[i];
            // a sub-directory is listed once: by the first slot that lives in it
            let mut first = true;
            if !is_file {
                let mut j = 0;
                while j < i {
                    if under(j, b) && s.name_len[j] > end && s.name[j][end] == b'/' {
                        let mut same = true;
                        let mut k = start;
                        while k < end { if s.name[j][k] != s.name[i][k] { same = false; } k += 1; }
                        if same { first = false; }
                    }
                    j += 1;
                }
            }
            if first {
                items[n] = DirEntry { slot: i, end, dir: if is_file { 0 } else { 1 }, len: if is_file { s.len[i] as u64 } else { 0 } };
                n += 1;
            }
        }
        i += 1;
    }
    Ok(ReadDir { items, n, next: 0 })
}
