// Independent reference models shared by the harnesses (written from the standards / format
// documentation, not from the Physis sources).
#![allow(dead_code)]
