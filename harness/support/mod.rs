// Independent reference models shared by the harnesses (written from the standards / format
// documentation, not from the Physis sources).
#![allow(dead_code)]

#[path = "../gen/pi.rs"]
pub mod gen_pi;
#[path = "../gen/params.rs"]
pub mod params;
pub mod refs;
pub mod bcn_ref;
pub mod memfile;
pub mod vfmt;
pub mod memfs;
