// Reference models written from the standards, independent of the Physis sources.

/// One byte of a reflected CRC-32 (polynomial 0xEDB88320), bit-serial.
pub fn ref_crc_step(mut c: u32, b: u8) -> u32 {
    c ^= b as u32;
    let mut i = 0;
    while i < 8 {
        c = if c & 1 == 1 { (c >> 1) ^ 0xEDB8_8320 } else { c >> 1 };
        i += 1;
    }
    c
}

pub fn ref_crc_update(mut c: u32, bytes: &[u8]) -> u32 {
    let mut i = 0;
    while i < bytes.len() {
        c = ref_crc_step(c, bytes[i]);
        i += 1;
    }
    c
}

pub fn ascii_lower(c: u8) -> u8 {
    if c >= b'A' && c <= b'Z' { c + 32 } else { c }
}

/// ASCII model of str::to_lowercase (its documented behaviour on ASCII input).
pub fn ascii_lower_model(s: &str) -> String {
    let b = s.as_bytes();
    let mut v: Vec<u8> = Vec::with_capacity(b.len());
    let mut i = 0;
    while i < b.len() {
        v.push(ascii_lower(b[i]));
        i += 1;
    }
    unsafe { String::from_utf8_unchecked(v) }
}

/// IEEE 754 binary16 -> binary32, exact (every half is representable as a float).
pub fn ref_half_to_f32_bits(h: u16) -> u32 {
    let sign = ((h >> 15) & 1) as u32;
    let exp = ((h >> 10) & 0x1F) as u32;
    let man = (h & 0x3FF) as u32;
    if exp == 0x1F {
        // inf / nan (payload in the top mantissa bits)
        return (sign << 31) | 0x7F80_0000 | (man << 13);
    }
    if exp == 0 {
        if man == 0 {
            return sign << 31;
        }
        // subnormal: value = man * 2^-24; normalise
        let mut e: i32 = -14;
        let mut m = man;
        while m & 0x400 == 0 {
            m <<= 1;
            e -= 1;
        }
        m &= 0x3FF;
        return (sign << 31) | (((e + 127) as u32) << 23) | (m << 13);
    }
    (sign << 31) | ((exp + 127 - 15) << 23) | (man << 13)
}

/// Straightforward models of core's word-at-a-time byte searches (their pointer-alignment
/// prologue is nondeterministic under CBMC and makes every later slice length symbolic).
pub fn naive_memchr(x: u8, text: &[u8]) -> Option<usize> {
    let mut i = 0;
    while i < text.len() {
        if text[i] == x {
            return Some(i);
        }
        i += 1;
    }
    None
}
pub fn naive_memrchr(x: u8, text: &[u8]) -> Option<usize> {
    let mut i = text.len();
    while i > 0 {
        i -= 1;
        if text[i] == x {
            return Some(i);
        }
    }
    None
}

/// `TypeId == TypeId` answered "no".  binrw's `#[br(count = n)]` reader tries ten `Vec<int>` fast
/// paths by down-casting its container (`<dyn Any>::is::<Vec<int>>()`, a `TypeId` comparison)
/// before falling back to the generic element-by-element path; under CBMC the comparison (a
/// pointer-array-to-u128 transmute) is not constant during symbolic execution, so all eleven paths
/// are explored for every counted vector.  The fast paths are pure optimisations (same bytes, same
/// values), so answering "no" selects the generic path without changing what is read.  Nothing
/// else on the paths exercised by the harnesses that use this stub compares `TypeId`s.
pub fn typeid_never_eq(_a: &core::any::TypeId, _b: &core::any::TypeId) -> bool {
    false
}

/// ASCII-only model of core's UTF-8 validator (whose word-at-a-time fast path starts with a
/// pointer-alignment computation that is nondeterministic under CBMC).  Only for harnesses whose
/// string bytes are ASCII: a non-ASCII byte is reported as a harness error, never silently skipped.
pub fn ascii_utf8_validation(v: &[u8]) -> Result<(), core::str::Utf8Error> {
    let mut i = 0;
    while i < v.len() {
        assert!(v[i] < 0x80, "harness precondition: ASCII text only under the ascii_utf8_validation stub");
        i += 1;
    }
    Ok(())
}
