// Runtime half of the `format!` model (see support/vfmt_macros): std's formatting engine is
// replaced by straight-line digit emission into a fixed buffer.  Semantics reproduced: `{}` on
// integers / str / String / char / references, minimum width with space or zero fill (numbers
// right-aligned, sign before the zeros; strings left-aligned), lower-case hex (two's complement
// for signed types).  Validated against std natively by support/vfmt_validate on every run.
#![allow(dead_code)]
pub const CAP: usize = 96;

pub struct Out { buf: [u8; CAP], len: usize }

impl Out {
    pub fn new() -> Self { Out { buf: [0; CAP], len: 0 } }
    #[inline(always)]
    pub fn byte(&mut self, b: u8) {
        if self.len < CAP { self.buf[self.len] = b; }
        self.len += 1;
    }
    pub fn lit(&mut self, s: &str) {
        let b = s.as_bytes();
        let mut i = 0;
        while i < b.len() { self.byte(b[i]); i += 1; }
    }
    pub fn finish(self) -> String {
        // a result longer than the model's buffer is reported, never truncated silently
        assert!(self.len <= CAP, "format model: output exceeds the model's buffer");
        let mut v: Vec<u8> = Vec::with_capacity(CAP);
        unsafe {
            core::ptr::copy_nonoverlapping(self.buf.as_ptr(), v.as_mut_ptr(), CAP);
            v.set_len(self.len);
            String::from_utf8_unchecked(v)
        }
    }
}

pub trait VFmt {
    fn vfmt(&self, out: &mut Out, width: usize, zero: bool, hex: bool);
}

#[inline(always)]
fn emit_number(out: &mut Out, neg: bool, digits: &[u8], cnt: usize, width: usize, zero: bool) {
    // digits: right-aligned in `digits`, `cnt` significant ones
    let total = cnt + if neg { 1 } else { 0 };
    let pad = if width > total { width - total } else { 0 };
    if !zero {
        let mut j = 0;
        while j < width { if j < pad { out.byte(b' '); } j += 1; }
    }
    if neg { out.byte(b'-'); }
    if zero {
        let mut j = 0;
        while j < width { if j < pad { out.byte(b'0'); } j += 1; }
    }
    let n = digits.len();
    let mut j = 0;
    while j < n { if j + cnt >= n { out.byte(digits[j]); } j += 1; }
}

macro_rules! impl_unsigned {
    ($t:ty, $maxd:expr, $maxh:expr) => {
        impl VFmt for $t {
            fn vfmt(&self, out: &mut Out, width: usize, zero: bool, hex: bool) {
                let mut n = *self;
                if hex {
                    let mut d = [b'0'; $maxh];
                    let mut cnt = 1;
                    let mut i = 0;
                    while i < $maxh {
                        let nib = (n & 0xf) as u8;
                        d[$maxh - 1 - i] = if nib < 10 { b'0' + nib } else { b'a' + (nib - 10) };
                        if nib != 0 { cnt = i + 1; }
                        n = if $maxh > 1 { n >> 4 } else { 0 };
                        i += 1;
                    }
                    emit_number(out, false, &d, cnt, width, zero);
                } else {
                    let mut d = [b'0'; $maxd];
                    let mut cnt = 1;
                    let mut i = 0;
                    while i < $maxd {
                        let dig = (n % 10) as u8;
                        d[$maxd - 1 - i] = b'0' + dig;
                        if dig != 0 { cnt = i + 1; }
                        n /= 10;
                        i += 1;
                    }
                    emit_number(out, false, &d, cnt, width, zero);
                }
            }
        }
    };
}
impl_unsigned!(u8, 3, 2);
impl_unsigned!(u16, 5, 4);
impl_unsigned!(u32, 10, 8);
impl_unsigned!(u64, 20, 16);
impl_unsigned!(usize, 20, 16);

macro_rules! impl_signed {
    ($t:ty, $u:ty, $maxd:expr) => {
        impl VFmt for $t {
            fn vfmt(&self, out: &mut Out, width: usize, zero: bool, hex: bool) {
                if hex {
                    (*self as $u).vfmt(out, width, zero, true);
                } else {
                    let neg = *self < 0;
                    let mut n: $u = self.unsigned_abs();
                    let mut d = [b'0'; $maxd];
                    let mut cnt = 1;
                    let mut i = 0;
                    while i < $maxd {
                        let dig = (n % 10) as u8;
                        d[$maxd - 1 - i] = b'0' + dig;
                        if dig != 0 { cnt = i + 1; }
                        n /= 10;
                        i += 1;
                    }
                    emit_number(out, neg, &d, cnt, width, zero);
                }
            }
        }
    };
}
impl_signed!(i8, u8, 3);
impl_signed!(i16, u16, 5);
impl_signed!(i32, u32, 10);
impl_signed!(i64, u64, 20);
impl_signed!(isize, usize, 20);

impl VFmt for str {
    fn vfmt(&self, out: &mut Out, width: usize, _zero: bool, _hex: bool) {
        out.lit(self);
        // strings are left-aligned and padded with spaces (width counts characters)
        if width > 0 {
            let n = self.chars().count();
            let mut j = 0;
            while j < width { if j >= n { out.byte(b' '); } j += 1; }
        }
    }
}
impl VFmt for String {
    fn vfmt(&self, out: &mut Out, width: usize, zero: bool, hex: bool) { self.as_str().vfmt(out, width, zero, hex) }
}
impl VFmt for char {
    fn vfmt(&self, out: &mut Out, width: usize, zero: bool, hex: bool) {
        let mut b = [0u8; 4];
        let s: &str = self.encode_utf8(&mut b);
        s.vfmt(out, width, zero, hex)
    }
}
impl<T: VFmt + ?Sized> VFmt for &T {
    fn vfmt(&self, out: &mut Out, width: usize, zero: bool, hex: bool) { (**self).vfmt(out, width, zero, hex) }
}
impl<T: VFmt + ?Sized> VFmt for &mut T {
    fn vfmt(&self, out: &mut Out, width: usize, zero: bool, hex: bool) { (**self).vfmt(out, width, zero, hex) }
}
