//! `vformat!`: a drop-in for `format!` used only inside the scratch copy that Kani compiles.
//!
//! The format string and its arguments are the ones Physis wrote (the macro receives the very
//! tokens of the `format!` call); what is replaced is std's formatting *engine*
//! (`core::fmt::write`, `Formatter::pad_integral`, `dyn Write`), on which CBMC's symbolic
//! execution does not terminate.  Supported placeholders: `{}`, `{n}`, `{name}` with the specs
//! `` (none), `N`, `0N`, `x`, `0Nx`, `Nx`.  Any other spec makes the macro expand to the real
//! `format!`, so nothing is modelled silently.  The runtime half lives in
//! `crate::verif_support::vfmt`; harness/support/vfmt_validate compares model and std natively.
extern crate proc_macro;
use proc_macro::{Delimiter, Group, Ident, Punct, Spacing, TokenStream, TokenTree};

enum Which { Next, Index(usize), Name(String) }
enum Piece { Lit(String), Arg { which: Which, width: usize, zero: bool, hex: bool } }

fn fallback(input: TokenStream) -> TokenStream {
    let mut out: TokenStream = "::std::format!".parse().unwrap();
    out.extend([TokenTree::Group(Group::new(Delimiter::Parenthesis, input))]);
    out
}

fn unescape(lit: &str) -> Option<String> {
    // ordinary (non-raw) string literal as printed by proc_macro: "...."
    if !lit.starts_with('"') || !lit.ends_with('"') || lit.len() < 2 { return None; }
    let inner = &lit[1..lit.len() - 1];
    let mut out = String::new();
    let mut it = inner.chars();
    while let Some(c) = it.next() {
        if c != '\\' { out.push(c); continue; }
        match it.next()? {
            'n' => out.push('\n'), 'r' => out.push('\r'), 't' => out.push('\t'), '0' => out.push('\0'),
            '\\' => out.push('\\'), '"' => out.push('"'), '\'' => out.push('\''),
            _ => return None, // \x, \u, line continuations: leave to std
        }
    }
    Some(out)
}

fn parse_spec(spec: &str) -> Option<(usize, bool, bool)> {
    // [0][width][x]
    let mut s = spec;
    let mut hex = false;
    if s.ends_with('x') { hex = true; s = &s[..s.len() - 1]; }
    let mut zero = false;
    if s.len() > 1 && s.starts_with('0') { zero = true; s = &s[1..]; }
    if s.is_empty() { return Some((0, false, hex)); }
    if !s.bytes().all(|b| b.is_ascii_digit()) { return None; }
    let w: usize = s.parse().ok()?;
    if w > 16 { return None; }
    Some((w, zero, hex))
}

fn parse_template(t: &str) -> Option<Vec<Piece>> {
    let mut pieces = Vec::new();
    let mut lit = String::new();
    let cs: Vec<char> = t.chars().collect();
    let mut i = 0;
    while i < cs.len() {
        let c = cs[i];
        if c == '{' {
            if i + 1 < cs.len() && cs[i + 1] == '{' { lit.push('{'); i += 2; continue; }
            let mut j = i + 1;
            while j < cs.len() && cs[j] != '}' { j += 1; }
            if j >= cs.len() { return None; }
            let body: String = cs[i + 1..j].iter().collect();
            let (name, spec) = match body.find(':') { Some(p) => (&body[..p], &body[p + 1..]), None => (&body[..], "") };
            let which = if name.is_empty() { Which::Next }
                else if name.bytes().all(|b| b.is_ascii_digit()) { Which::Index(name.parse().ok()?) }
                else if name.chars().all(|ch| ch.is_alphanumeric() || ch == '_') { Which::Name(name.to_string()) }
                else { return None };
            let (width, zero, hex) = parse_spec(spec)?;
            if !lit.is_empty() { pieces.push(Piece::Lit(std::mem::take(&mut lit))); }
            pieces.push(Piece::Arg { which, width, zero, hex });
            i = j + 1;
        } else if c == '}' {
            if i + 1 < cs.len() && cs[i + 1] == '}' { lit.push('}'); i += 2; continue; }
            return None;
        } else { lit.push(c); i += 1; }
    }
    if !lit.is_empty() { pieces.push(Piece::Lit(lit)); }
    Some(pieces)
}

fn rust_str(s: &str) -> String {
    let mut o = String::from("\"");
    for c in s.chars() {
        match c {
            '\n' => o.push_str("\\n"), '\r' => o.push_str("\\r"), '\t' => o.push_str("\\t"), '\0' => o.push_str("\\0"),
            '\\' => o.push_str("\\\\"), '"' => o.push_str("\\\""), c => o.push(c),
        }
    }
    o.push('"');
    o
}

#[proc_macro]
pub fn vformat(input: TokenStream) -> TokenStream {
    let original = input.clone();
    // split at top-level commas
    let mut parts: Vec<Vec<TokenTree>> = vec![vec![]];
    for tt in input {
        match &tt {
            TokenTree::Punct(p) if p.as_char() == ',' => parts.push(vec![]),
            _ => parts.last_mut().unwrap().push(tt),
        }
    }
    if parts.last().map(|p| p.is_empty()).unwrap_or(false) { parts.pop(); }
    if parts.is_empty() || parts[0].len() != 1 { return fallback(original); }
    let tmpl = match &parts[0][0] { TokenTree::Literal(l) => l.to_string(), _ => return fallback(original) };
    let tmpl = match unescape(&tmpl) { Some(t) => t, None => return fallback(original) };
    let pieces = match parse_template(&tmpl) { Some(p) => p, None => return fallback(original) };
    // positional and named arguments (the caller's tokens are kept as they are, spans included)
    let lit_span = parts[0][0].span();
    let mut exprs: Vec<TokenStream> = Vec::new();
    let mut names: Vec<(String, usize)> = Vec::new();
    let mut npos = 0;
    for part in &parts[1..] {
        if part.is_empty() { return fallback(original); }
        let named = part.len() >= 3
            && matches!(&part[0], TokenTree::Ident(_))
            && matches!(&part[1], TokenTree::Punct(p) if p.as_char() == '=' && p.spacing() == Spacing::Alone);
        if named {
            names.push((part[0].to_string(), exprs.len()));
            exprs.push(part[2..].iter().cloned().collect());
        } else {
            if !names.is_empty() { return fallback(original); }
            exprs.push(part.iter().cloned().collect());
            npos += 1;
        }
    }
    let mut body = String::new();
    let mut next = 0usize;
    for p in &pieces {
        match p {
            Piece::Lit(s) => { body.push_str(&format!("__vf.lit({});", rust_str(s))); }
            Piece::Arg { which, width, zero, hex } => {
                let idx = match which {
                    Which::Next => { let k = next; next += 1; if k >= npos { return fallback(original); } k }
                    Which::Index(k) => { if *k >= npos { return fallback(original); } *k }
                    Which::Name(n) => match names.iter().find(|(m, _)| m == n) {
                        Some((_, k)) => *k,
                        None => {
                            // captured identifier: resolved where the format string was written
                            names.push((n.clone(), exprs.len()));
                            exprs.push(TokenStream::from(TokenTree::Ident(Ident::new(n, lit_span))));
                            exprs.len() - 1
                        }
                    },
                };
                body.push_str(&format!("crate::verif_support::vfmt::VFmt::vfmt(__a{}, &mut __vf, {}usize, {}, {});", idx, width, zero, hex));
            }
        }
    }
    let mut tuple = TokenStream::new();
    let mut pats = String::new();
    for (i, e) in exprs.iter().enumerate() {
        tuple.extend([
            TokenTree::Punct(Punct::new('&', Spacing::Alone)),
            TokenTree::Group(Group::new(Delimiter::Parenthesis, e.clone())),
            TokenTree::Punct(Punct::new(',', Spacing::Alone)),
        ]);
        pats.push_str(&format!("__a{},", i));
    }
    let parse = |s: &str| -> Option<TokenStream> { s.parse().ok() };
    let (Some(prefix), Some(arm), Some(suffix)) = (
        parse("let mut __vf = crate::verif_support::vfmt::Out::new();"),
        parse(&format!("({}) => {{ {} }}", pats, body)),
        parse("__vf.finish()"),
    ) else { return fallback(original) };
    let mut inner = TokenStream::new();
    inner.extend(prefix);
    inner.extend([
        TokenTree::Ident(Ident::new("match", proc_macro::Span::call_site())),
        TokenTree::Group(Group::new(Delimiter::Parenthesis, tuple)),
        TokenTree::Group(Group::new(Delimiter::Brace, arm)),
    ]);
    inner.extend(suffix);
    TokenStream::from(TokenTree::Group(Group::new(Delimiter::Brace, inner)))
}
