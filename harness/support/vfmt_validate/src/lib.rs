//! Differential validation of the `format!` model against std's `format!` (native run).
#[path = "../../vfmt.rs"]
pub mod vfmt_impl;
pub mod verif_support {
    pub use crate::vfmt_impl as vfmt;
}

#[cfg(test)]
mod tests {
    use verif_fmt_macros::vformat;

    macro_rules! both {
        ($($t:tt)*) => { assert_eq!(vformat!($($t)*), format!($($t)*), "{}", stringify!($($t)*)); };
    }

    fn lcg(s: &mut u64) -> u64 { *s = s.wrapping_mul(6364136223846793005).wrapping_add(1442695040888963407); *s >> 11 }

    #[test]
    fn all_u8_i8() {
        for v in 0..=255u8 {
            both!("{}", v); both!("{:02}", v); both!("{:04}", v); both!("{:02x}", v); both!("{:x}", v); both!("{:3}", v); both!("{:04x}", v);
            let s = v as i8;
            both!("{}", s); both!("{:02}", s); both!("{:04}", s); both!("{:02x}", s); both!("{:5}", s);
        }
    }
    #[test]
    fn all_u16_i16() {
        for v in 0..=65535u16 {
            both!("{}", v); both!("{:02}", v); both!("{:04}", v); both!("{:04x}", v); both!("{:02x}", v);
            let s = v as i16;
            both!("{}", s); both!("{:04}", s); both!("{:04x}", s);
        }
    }
    #[test]
    fn wide_ints() {
        let mut s = 1u64;
        let mut vals: Vec<u64> = vec![0, 1, 9, 10, 99, 100, 999, 1000, 9999, 10000, u32::MAX as u64, u32::MAX as u64 + 1, u64::MAX, u64::MAX - 1, i64::MAX as u64, i64::MIN as u64, i32::MAX as u64, i32::MIN as u32 as u64];
        let mut p = 1u64;
        for _ in 0..19 { p = p.wrapping_mul(10); vals.push(p); vals.push(p - 1); vals.push(p + 1); }
        for _ in 0..20000 { let r = lcg(&mut s); let sh = lcg(&mut s) % 64; vals.push(r >> sh); }
        for &v in &vals {
            both!("{}", v); both!("{:02}", v); both!("{:04}", v); both!("{:08x}", v); both!("{:x}", v); both!("{:016}", v);
            let a = v as u32; both!("{}", a); both!("{:02}", a); both!("{:04}", a); both!("{:02x}", a); both!("{:04x}", a); both!("{:08x}", a);
            let b = v as i32; both!("{}", b); both!("{:02}", b); both!("{:04}", b); both!("{:02x}", b); both!("{:08x}", b); both!("{:12}", b);
            let c = v as i64; both!("{}", c); both!("{:04}", c); both!("{:x}", c);
            let d = v as usize; both!("{}", d); both!("{:04}", d);
            let e = v as isize; both!("{}", e);
        }
    }
    #[test]
    fn strings_and_wiring() {
        let name = "ex1"; let owned = String::from("win32"); let n = 7u32; let chunk = 3u8; let expansion = 2i32;
        both!("{name}.ver");
        both!("{}/{}", name, owned);
        both!("{:02x}{:02}{:02}.{}.index", 10, expansion, chunk, owned);
        both!("{:02x}{expansion:02}{chunk:02}.{owned}.dat{n}", 10u32);
        both!("{}2", owned);
        both!("{1}-{0}-{1}", name, n);
        both!("{a}{b:04}{a}", a = name, b = n);
        both!("{{{}}}", n);
        both!("\r\n<{}>\r\n", name);
        both!("{}\t{}\r\n", name, owned);
        both!("{:6}|", name); both!("{:2}|", name); both!("{}", 'x'); both!("{:3}|", 'x');
        both!("{}", &&n); both!("{:04}", &n);
        both!("chara/equipment/e{:04}/model/c{:04}e{:04}_{}.{}", 6016, 101, 6016, "top", "mdl");
        both!("no placeholders");
        both!("{:?}", n); // unsupported spec: falls back to std
        both!("{:>4}", n);
    }
}
