#![allow(static_mut_refs, unused_imports, dead_code, unused_unsafe)]
// Kani harnesses for src/tera.rs
use super::*;

// file names are formatted with format!, which CBMC cannot get through; formatting is not the
// subject of these harnesses
fn stub_format(_args: core::fmt::Arguments<'_>) -> String { String::new() }

fn put<const N: usize, const M: usize>(buf: &mut [u8; M], off: usize, v: [u8; N]) {
    let mut i = 0;
    while i < N { buf[off + i] = v[i]; i += 1; }
}

/// plate positions: plate_size * (x + 0.5), plate_size * (y + 0.5) for every stored i16 pair
#[kani::proof]
#[kani::unwind(6)]
#[kani::stub(alloc::fmt::format, stub_format)]
fn c16_terrain_plate_positions() {
    let mut buf = [0u8; 52 + 8];
    put(&mut buf, 0, 0x1000003u32.to_le_bytes());
    put(&mut buf, 4, 2u32.to_le_bytes());
    let plate_size: u32 = kani::any();
    kani::assume(plate_size <= 4096);
    put(&mut buf, 8, plate_size.to_le_bytes());
    let p: [i16; 4] = kani::any();
    put(&mut buf, 52, p[0].to_le_bytes());
    put(&mut buf, 54, p[1].to_le_bytes());
    put(&mut buf, 56, p[2].to_le_bytes());
    put(&mut buf, 58, p[3].to_le_bytes());
    let t = Terrain::from_existing(&buf).unwrap();
    assert_eq!(t.plates.len(), 2);
    let ps = plate_size as f32;
    assert_eq!(t.plates[0].position.0.to_bits(), (ps * (p[0] as f32 + 0.5)).to_bits());
    assert_eq!(t.plates[0].position.1.to_bits(), (ps * (p[1] as f32 + 0.5)).to_bits());
    assert_eq!(t.plates[1].position.0.to_bits(), (ps * (p[2] as f32 + 0.5)).to_bits());
    assert_eq!(t.plates[1].position.1.to_bits(), (ps * (p[3] as f32 + 0.5)).to_bits());
    kani::cover!(true);
    core::mem::forget(t);
}

/// writing a terrain whose plates sit on the 128-unit grid stores exactly their grid coordinates
/// (negative ones included), at the documented offsets; reading them back gives the same positions
#[kani::proof]
#[kani::unwind(6)]
fn c16_terrain_write_grid_coordinates() {
    let x: i16 = kani::any();
    let y: i16 = kani::any();
    let pos = (128.0 * (x as f32 + 0.5), 128.0 * (y as f32 + 0.5));
    let t = Terrain { plates: vec![PlateModel { position: pos, filename: String::new() }] };
    let out = t.write_to_buffer().unwrap();
    assert_eq!(out.len(), 56);
    assert_eq!(u32::from_le_bytes([out[0], out[1], out[2], out[3]]), 0x1000003);
    assert_eq!(u32::from_le_bytes([out[4], out[5], out[6], out[7]]), 1);
    assert_eq!(u32::from_le_bytes([out[8], out[9], out[10], out[11]]), 128);
    assert_eq!(i16::from_le_bytes([out[52], out[53]]), x);
    assert_eq!(i16::from_le_bytes([out[54], out[55]]), y);
    kani::cover!(x < 0);
    kani::cover!(x >= 0);
    core::mem::forget((t, out));
}

#[kani::proof]
#[kani::unwind(6)]
fn c16t_pipeline_witness() {
    let t = Terrain { plates: vec![] };
    let out = t.write_to_buffer();
    core::mem::forget((t, out));
    assert!(false);
}
