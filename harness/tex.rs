#![allow(static_mut_refs, unused_imports, dead_code, unused_unsafe)]
// Kani harnesses for src/tex.rs
use super::*;
use crate::verif_support::bcn_ref::*;

fn put<const N: usize, const M: usize>(buf: &mut [u8; M], off: usize, v: [u8; N]) {
    let mut i = 0;
    while i < N {
        buf[off + i] = v[i];
        i += 1;
    }
}

/// Texture::decode: BGRA words -> RGBA bytes, image size = width*height words.
#[kani::proof]
#[kani::unwind(18)]
fn c13_texture_decode_reorders_bgra() {
    let data: [u8; 8] = kani::any();
    let out = Texture::decode(&data, 4, 4, decode_bc1);
    assert_eq!(out.len(), 64);
    let i: usize = kani::any();
    kani::assume(i < 16);
    let (er, eg, eb, ea) = bc1_pixel(&data, i);
    assert_eq!((out[4 * i] as u32, out[4 * i + 1] as u32, out[4 * i + 2] as u32), (er, eg, eb));
    if let Some(ea) = ea { assert_eq!(out[4 * i + 3] as u32, ea); }
    kani::cover!(true);
}

fn header<const M: usize>(buf: &mut [u8; M], attr: u32, format: u32, w: u16, h: u16, d: u16) {
    put(buf, 0, attr.to_le_bytes());
    put(buf, 4, format.to_le_bytes());
    put(buf, 8, w.to_le_bytes());
    put(buf, 10, h.to_le_bytes());
    put(buf, 12, d.to_le_bytes());
    put(buf, 14, 1u16.to_le_bytes());
}

/// B8G8R8A8: whole entry point, concrete dimensions, symbolic attribute flags and payload.
fn from_existing_bgra<const W: usize, const H: usize, const D: usize, const M: usize>() {
    let mut buf = [0u8; M];
    let attr: u32 = kani::any();
    header(&mut buf, attr, 0x1450, W as u16, H as u16, D as u16);
    let mut i = 80;
    while i < M {
        buf[i] = kani::any();
        i += 1;
    }
    let t = Texture::from_existing(&buf).unwrap();
    assert_eq!((t.width, t.height, t.depth), (W as u32, H as u32, D as u32));
    assert_eq!(t.rgba.len(), 4 * W * H * D);
    let p: usize = kani::any();
    kani::assume(p < W * H * D);
    assert_eq!(t.rgba[4 * p], buf[80 + 4 * p + 2]);
    assert_eq!(t.rgba[4 * p + 1], buf[80 + 4 * p + 1]);
    assert_eq!(t.rgba[4 * p + 2], buf[80 + 4 * p]);
    assert_eq!(t.rgba[4 * p + 3], buf[80 + 4 * p + 3]);
    let is3d = matches!(t.texture_type, TextureType::ThreeDimensional);
    assert_eq!(is3d, attr & 0x1000000 != 0);
    kani::cover!(is3d);
    kani::cover!(!is3d);
    core::mem::forget(t);
}
#[kani::proof]
#[kani::unwind(20)]
fn c13_from_existing_bgra_2x2x1() { from_existing_bgra::<2, 2, 1, { 80 + 16 }>(); }
#[kani::proof]
#[kani::unwind(20)]
fn c13_from_existing_bgra_1x2x2() { from_existing_bgra::<1, 2, 2, { 80 + 16 }>(); }
#[kani::proof]
#[kani::unwind(20)]
fn c13_from_existing_bgra_3x1x1() { from_existing_bgra::<3, 1, 1, { 80 + 12 }>(); }

/// BC1 through the whole entry point
fn from_existing_bc<const W: usize, const H: usize, const D: usize, const M: usize>(format: u32) {
    let mut buf = [0u8; M];
    let attr: u32 = kani::any();
    header(&mut buf, attr, format, W as u16, H as u16, D as u16);
    let mut i = 80;
    while i < M {
        buf[i] = kani::any();
        i += 1;
    }
    let t = Texture::from_existing(&buf).unwrap();
    assert_eq!((t.width, t.height, t.depth), (W as u32, H as u32, D as u32));
    assert_eq!(t.rgba.len(), 4 * W * H * D);
    let x: usize = kani::any();
    let y: usize = kani::any();
    kani::assume(x < W && y < H * D);
    let blocks_x = (W + 3) / 4;
    let blk = (y / 4) * blocks_x + x / 4;
    let pi = (y % 4) * 4 + x % 4;
    let o = 4 * (y * W + x);
    let px = (t.rgba[o] as u32, t.rgba[o + 1] as u32, t.rgba[o + 2] as u32, t.rgba[o + 3] as u32);
    if format == 0x3420 {
        let (er, eg, eb, ea) = bc1_pixel(&buf[80 + 8 * blk..], pi);
        assert_eq!((px.0, px.1, px.2), (er, eg, eb));
        if let Some(ea) = ea { assert_eq!(px.3, ea); }
    } else if format == 0x3431 {
        let (er, eg, eb, _) = bc1_pixel(&buf[80 + 16 * blk + 8..], pi);
        assert_eq!((px.0, px.1, px.2), (er, eg, eb));
        assert_eq!(px.3, bc4_value(&buf[80 + 16 * blk..], pi));
    } else {
        assert_eq!(px.0, bc4_value(&buf[80 + 16 * blk..], pi));
        assert_eq!(px.1, bc4_value(&buf[80 + 16 * blk + 8..], pi));
        assert_eq!(px.3, 255);
    }
    let is3d = matches!(t.texture_type, TextureType::ThreeDimensional);
    assert_eq!(is3d, attr & 0x1000000 != 0);
    kani::cover!(true);
    core::mem::forget(t);
}
#[kani::proof]
#[kani::unwind(20)]
fn c13_from_existing_bc1_4x4() { from_existing_bc::<4, 4, 1, { 80 + 8 }>(0x3420); }
#[kani::proof]
#[kani::unwind(20)]
fn c13_from_existing_bc1_5x3() { from_existing_bc::<5, 3, 1, { 80 + 16 }>(0x3420); }
#[kani::proof]
#[kani::unwind(20)]
fn c13_from_existing_bc3_4x4() { from_existing_bc::<4, 4, 1, { 80 + 16 }>(0x3431); }
#[kani::proof]
#[kani::unwind(20)]
fn c13_from_existing_bc5_4x4() { from_existing_bc::<4, 4, 1, { 80 + 16 }>(0x6230); }
#[kani::proof]
#[kani::unwind(40)]
fn c13_from_existing_bc1_4x4x2() { from_existing_bc::<4, 4, 2, { 80 + 16 }>(0x3420); }

// ------------------------------------------------------------------------------------- C18
/// a texture whose payload is shorter than its header promises must be rejected, not crash
#[kani::proof]
#[kani::unwind(20)]
fn c18_texture_short_payload_bc1() {
    let mut buf = [0u8; 84];
    header(&mut buf, kani::any(), 0x3420, 4, 4, 1);
    let r = Texture::from_existing(&buf);
    kani::cover!(true);
    core::mem::forget(r);
}
#[kani::proof]
#[kani::unwind(20)]
fn c18_texture_short_payload_bgra() {
    let mut buf = [0u8; 86];
    header(&mut buf, kani::any(), 0x1450, 2, 1, 1);
    let r = Texture::from_existing(&buf);
    kani::cover!(true);
    core::mem::forget(r);
}
