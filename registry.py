"""Registry of Kani harnesses: which harness decides which property, in which tier, with which
bounds.  The harness sources live in harness/<module>.rs and are appended (as child module
`verif_kani`) to the Physis source file named in MODULES, inside a scratch copy of /repo."""
import os

# harness file (without .rs)  ->  source file of /repo it becomes a child module of
MODULES = {
    "race": "src/race.rs",
    "repository": "src/repository.rs",
    "equipment": "src/equipment.rs",
    "common": "src/common.rs",
    "blowfish": "src/blowfish/mod.rs",
    "crc": "src/crc.rs",
    "sha1": "src/sha1.rs",
    "sqpack_index": "src/sqpack/index.rs",
    "sqpack_mod": "src/sqpack/mod.rs",
    "sqpack_data": "src/sqpack/data.rs",
    "gamedata": "src/gamedata.rs",
    "compression": "src/compression.rs",
    "exd": "src/exd.rs",
    "exh": "src/exh.rs",
    "model": "src/model.rs",
    "model_ops": "src/model_file_operations.rs",
    "model_decl": "src/model_vertex_declarations.rs",
    "mtrl": "src/mtrl.rs",
    "shpk": "src/shpk.rs",
    "cfo": "src/common_file_operations.rs",
    "tex": "src/tex.rs",
    "bcn": "src/bcn/mod.rs",
    "chardat": "src/chardat.rs",
    "gearsets": "src/gearsets.rs",
    "dat": "src/dat.rs",
    "fiin": "src/fiin.rs",
    "patch": "src/patch.rs",
    "pbd": "src/pbd.rs",
    "cmp": "src/cmp.rs",
    "tera": "src/tera.rs",
    "layer": "src/layer/mod.rs",
    "log": "src/log.rs",
    "execlookup": "src/execlookup.rs",
    "stm": "src/stm.rs",
    "havok_reader": "src/havok/binary_tag_file_reader.rs",
}


def rust_mod_path(module):
    p = MODULES[module]
    assert p.startswith("src/") and p.endswith(".rs")
    p = p[4:-3]
    if p.endswith("/mod"):
        p = p[:-4]
    return p.replace("/", "::")


def fq(h):
    return "%s::verif_kani::%s" % (rust_mod_path(h["module"]), h["name"])


# textual substitutions applied to the scratch copy of a source file when the module is injected
# (environment model: the dat-file handle becomes an in-memory file).  Each pattern must match
# exactly once, otherwise the check answers "inconclusive" (exit 2) instead of guessing.
TRANSFORMS = {
    "patch": [
        ("use std::fs;\nuse std::fs::{File, OpenOptions, read, read_dir};\n",
         "use crate::verif_support::memfs as fs;\nuse crate::verif_support::memfs::{File, OpenOptions, read, read_dir};\n"),
        # logging gets an empty body (the tracing dispatcher is not the subject and is not encodable)
        ("use tracing::{debug, warn};\n",
         "macro_rules! debug { ($($t:tt)*) => {{}} }\nmacro_rules! warn { ($($t:tt)*) => {{}} }\n"),
        # derive(PartialEq) on a niche-encoded enum is not constant-folded by CBMC's symbolic execution (DESIGN.md, C03); comparing
        # with a field-less variant is, by the definition of the derive, the discriminant test that `matches!` spells out
        ("    #[br(if(chunk_type != ChunkType::EndOfFile))]\n", "    #[br(if(!matches!(chunk_type, ChunkType::EndOfFile)))]\n"),
        # data-carrying enums get an explicit tag byte (layout only; Physis has no unsafe code that depends on enum layout): with
        # rustc's default niche-filling layout the discriminant of a freshly parsed ChunkType is read out of its payload's bytes and
        # is not a constant for CBMC's symbolic execution, so every arm of every `match` on it was explored
        ("enum ChunkType {\n", "#[repr(u8)]\nenum ChunkType {\n"),
        ("enum SqpkOperation {\n", "#[repr(u8)]\nenum SqpkOperation {\n"),
        ("enum FileHeaderChunk {\n", "#[repr(u8)]\nenum FileHeaderChunk {\n"),
    ],
    "sqpack_data": [
        ("    file: std::fs::File,\n", "    file: crate::verif_support::memfile::MemFile,\n"),
        ("            file: std::fs::File::open(path).ok()?,\n", "            file: crate::verif_support::memfile::MemFile::open(path)?,\n"),
    ],
}

# dependency model for std's formatting engine (see check: apply_format_model): harness module -> source files whose
# `format!(` calls are compiled through the model
FORMAT_MODEL = {
    "repository": ["src/repository.rs"],
    "equipment": ["src/equipment.rs", "src/race.rs"],
    "exd": ["src/exd.rs"],
    "patch": ["src/patch.rs"],
}
FMT = ["core::fmt (format! engine) -> straight-line digit / literal emission (support/vfmt.rs); the format strings and argument "
       "wiring are Physis's own; model compared with std::format! natively on every run (all u8/u16 values, 20 000 wide values, "
       "every spec used)"]

# dependency model (see check: patch_binrw): binrw's counted-vector reader without its integer fast paths
PATCH_BINRW_COUNT = True

HARNESSES = []
FS256 = ["--max-field-sensitivity-array-size", "256"]   # keep concrete bytes of buffers up to 256 B constant for symex
FS1K = ["--max-field-sensitivity-array-size", "1024"]


def H(prop, module, name, tier="quick", timeout=120, bounds="", encodes=(), stubs=(), assumes=(),
      expect="pass", replay="playback", unwind=None, kani_args=(), unwind_is_violation=False, note="",
      no_cover=None, cbmc_args=(), tagged_results=False, mem_gb=None):
    if expect == "witness-fail" and timeout < 600:
        timeout = 600   # a twin that comes back without a verdict breaks the whole check: never let it be the time limit
    HARNESSES.append(dict(prop=prop, module=module, name=name, tier=tier, timeout=timeout, bounds=bounds,
                          encodes=list(encodes), stubs=list(stubs), assumes=list(assumes), expect=expect,
                          replay=replay, unwind=unwind, kani_args=list(kani_args),
                          unwind_is_violation=unwind_is_violation, note=note, no_cover=no_cover, cbmc_args=list(cbmc_args),
                          tagged_results=tagged_results, mem_gb=mem_gb))


def select(prop, tier):
    out = []
    for h in HARNESSES:
        if h["prop"] != prop:
            continue
        if tier == "quick" and h["tier"] != "quick":
            continue
        out.append(dict(h))
    return out


def generate(gendir, seed, tier, src):
    """Files generated at check time (reference tables, seed-dependent shape parameters)."""
    import gen_tables
    gen_tables.generate(gendir, seed, tier, src)


# ================================================================================================
# C15 — race codes, paths, repository names
# ================================================================================================
H("C15", "race", "c15_own_two_tribes", bounds="all 8 races",
  encodes=["race::get_supported_tribes"])
H("C15", "race", "c15_race_id_defined_iff_valid", bounds="all 8x16x2 (race, tribe, gender) triples",
  encodes=["race::get_race_id", "race::get_supported_tribes"])
H("C15", "race", "c15_race_id_injective", bounds="all pairs of (race, tribe, gender) triples",
  encodes=["race::get_race_id"])
H("C15", "race", "c15_race_id_table", bounds="all 8x16x2 triples vs the documented code table (2*k-1)*100+1",
  encodes=["race::get_race_id"])
H("C15", "race", "c15_try_from_tables", bounds="all 256 byte values for Race/Tribe/Gender::try_from",
  encodes=["race::Race::try_from", "race::Tribe::try_from", "race::Gender::try_from"])
H("C15", "race", "c15_pipeline_witness", expect="witness-fail", bounds="assert(false) twin: must be reported as failing")

# ================================================================================================
# C11 — Blowfish
# ================================================================================================
_BF = ["blowfish::Blowfish::f", "blowfish::Blowfish::encrypt_pair", "blowfish::Blowfish::decrypt_pair"]
H("C11", "blowfish", "c11_f_is_spec", bounds="all 4x256 S-box words (symbolic, 4 KiB), all 2^32 x",
  encodes=["blowfish::Blowfish::f"])
H("C11", "blowfish", "c11_encrypt_pair_is_reference", unwind=66,
  bounds="all P arrays, all blocks (l, r), every F (abstract function, 32 calls)",
  encodes=["blowfish::Blowfish::encrypt_pair"], stubs=["Blowfish::f -> abstract function (Ackermann constraints)"],
  replay="playback")
H("C11", "blowfish", "c11_decrypt_inverts_encrypt", unwind=66,
  bounds="all P arrays, all blocks, every F (abstract function)",
  encodes=_BF[1:], stubs=["Blowfish::f -> abstract function (Ackermann constraints)"])
H("C11", "blowfish", "c11_encrypt_inverts_decrypt", unwind=66,
  bounds="all P arrays, all blocks, every F (abstract function)",
  encodes=_BF[1:], stubs=["Blowfish::f -> abstract function (Ackermann constraints)"])
_FR = dict(encodes=["blowfish::Blowfish::encrypt", "blowfish::Blowfish::decrypt", "blowfish::Blowfish::pad_buffer"],
           stubs=["Blowfish::encrypt_pair -> arbitrary injective function (recorded)",
                  "Blowfish::decrypt_pair -> its inverse on recorded outputs, arbitrary elsewhere (justified by c11_decrypt_inverts_encrypt)"],
           replay="structural", unwind=34)
for n, t in ((0, "quick"), (1, "quick"), (7, "thorough"), (8, "quick"), (9, "quick"), (13, "thorough"),
             (16, "thorough"), (17, "quick"), (24, "thorough")):
    H("C11", "blowfish", "c11_framing_len%d" % n, tier=t, timeout=300,
      bounds="message length %d (concrete), all message bytes symbolic" % n, **_FR)
H("C11", "blowfish", "c11_tables_are_pi", bounds="all 18 + 1024 table words vs pi digits generated at check time",
  encodes=["blowfish::constants::BLOWFISH_P", "blowfish::constants::BLOWFISH_S"])
_KS = dict(encodes=["blowfish::Blowfish::new"], replay="structural", unwind=130,
           kani_args=["--no-assertion-reach-checks"],
           no_cover="harness has no kani::assume (vacuity impossible); cover!/reachability checks removed because CBMC's "
                    "trace generation for them took 290 of 335 s",
           stubs=["Blowfish::encrypt_pair -> recorder returning fresh nondeterministic pairs (521 calls)"])
H("C11", "blowfish", "c11_key_schedule_8", tier="quick", timeout=600, bounds="all 2^64 8-byte keys", **_KS)
H("C11", "blowfish", "c11_key_schedule_16", tier="thorough", timeout=1500, bounds="all 16-byte keys", **_KS)
H("C11", "blowfish", "c11_key_schedule_56", tier="thorough", timeout=1800, bounds="all 56-byte keys", **_KS)
H("C11", "blowfish", "c11_published_vector_zero_key", tier="thorough", timeout=1800, unwind=130,
  bounds="one concrete published vector (key 0^8, block 0^8) through new+encrypt; decided by constant propagation",
  encodes=["blowfish::Blowfish::new", "blowfish::Blowfish::encrypt"] + _BF, kani_args=["--no-assertion-reach-checks"],
  no_cover="fully concrete harness without assumptions")
H("C11", "blowfish", "c11_pipeline_witness", expect="witness-fail", bounds="assert(false) twin: must be reported as failing")

# ================================================================================================
# C12 — hashes
# ================================================================================================
H("C12", "crc", "c12_jamcrc_table", unwind=258, bounds="all 256 table entries", encodes=["crc::Jamcrc::new"])
H("C12", "crc", "c12_jamcrc_step_inductive", unwind=258,
  bounds="one loop iteration from every register value (2^32) and every byte: inductive step for any length",
  encodes=["crc::Jamcrc::new", "loop body of crc::Jamcrc::checksum (re-stated in the harness)"])
for n, t in ((0, "quick"), (1, "quick"), (2, "quick"), (3, "quick"), (4, "quick"), (5, "thorough"), (6, "thorough"), (8, "thorough")):
    H("C12", "crc", "c12_jamcrc_len%d" % n, tier=t, timeout=900, unwind=258,
      bounds="all byte strings of length %d" % n, encodes=["crc::Jamcrc::new", "crc::Jamcrc::checksum"])
for n, t in ((0, "quick"), (1, "quick"), (2, "thorough"), (3, "thorough")):
    H("C12", "crc", "c12_xivcrc_len%d" % n, tier=t, timeout=1800, unwind=10,
      bounds="all byte strings of length %d" % n,
      encodes=["crc::XivCrc32::from", "crc::crc32", "libz_rs_sys::crc32 (zlib-rs, real code)"])
H("C12", "crc", "c12_pipeline_witness", expect="witness-fail", bounds="assert(false) twin")
H("C12", "sha1", "c12_sha1_compress_full", tier="thorough", timeout=1500, unwind=82,
  bounds="all 2^160 chaining values x all 2^512 blocks (one compression call)",
  encodes=["sha1::Sha1State::process", "sha1::sha1_digest_round_x4", "sha1::sha1rnds4c/p/m", "sha1::sha1msg1", "sha1::sha1msg2", "sha1::sha1_first_half"])
for g in ("choose", "parity1", "majority", "parity2"):
    H("C12", "sha1", "c12_sha1_rounds4_%s" % g, unwind=6,
      bounds="all working variables a..e and four message words; textbook association of the round formula",
      encodes=["sha1::sha1_digest_round_x4", "sha1::sha1_first_add"])
H("C12", "sha1", "c12_sha1_schedule", unwind=22, bounds="all 16 previous words -> 4 new words",
  encodes=["sha1::sha1msg1", "sha1::sha1msg2"])
_PAD = dict(encodes=["sha1::Sha1::from", "sha1::Sha1::update", "sha1::Blocks::input", "sha1::Sha1::digest"],
            stubs=["Sha1State::process -> block recorder"], replay="structural")
for n, t in ((0, "quick"), (1, "thorough"), (55, "quick"), (56, "quick"), (57, "thorough"), (63, "quick"), (64, "quick"),
             (65, "thorough"), (119, "quick"), (120, "quick"), (128, "thorough"), (183, "thorough"), (184, "thorough")):
    H("C12", "sha1", "c12_sha1_padding_len%d" % n, tier=t, timeout=600, unwind=200,
      bounds="message length %d (concrete), all contents" % n, **_PAD)
# c12_sha1_padding_symbolic_len / c12_sha1_padding_two_updates (harness/sha1.rs) are not registered: a symbolic message length ran out of
# memory at 120, 64 and 30 bytes (10 GB within 4 min); padding is decided at concrete lengths instead.
H("C12", "sha1", "c12_sha1_init_and_digest_bytes", unwind=22, bounds="initial state constants; all 2^160 states -> 20 big-endian bytes",
  encodes=["sha1::Sha1::new", "sha1::Digest::bytes"])
H("C12", "sha1", "c12_sha1_fips_vector_abc", tier="thorough", timeout=600, unwind=82,
  bounds="one concrete FIPS vector end to end (constant propagation)", encodes=["sha1::Sha1::from", "sha1::Sha1::digest"])
H("C12", "sha1", "c12s_pipeline_witness", expect="witness-fail", bounds="assert(false) twin")

# ================================================================================================
# C13 — textures
# ================================================================================================
H("C13", "bcn", "c13_bc1_block", unwind=18, bounds="all 2^64 BC1 blocks, every pixel of the block", encodes=["bcn::bc1::decode_bc1_block", "bcn::color::rgb565_le", "bcn::color::color"])
for ch in (3, 2, 1):
    H("C13", "bcn", "c13_bc3_alpha_ch%d" % ch, unwind=18, bounds="all 2^64 alpha blocks, channel %d, arbitrary prior pixel contents" % ch,
      encodes=["bcn::bc3::decode_bc3_alpha"])
H("C13", "bcn", "c13_bc3_block", unwind=18, bounds="all 2^128 BC3 blocks", encodes=["bcn::bc3::decode_bc3_block"])
H("C13", "bcn", "c13_bc5_block", unwind=18, bounds="all 2^128 BC5 blocks", encodes=["bcn::bc5::decode_bc5_block"])
for hh, t in ((1, "thorough"), (3, "quick"), (4, "thorough"), (5, "quick"), (8, "thorough"), (9, "thorough")):
    H("C13", "bcn", "c13_copy_block_h%d" % hh, tier=t, unwind=6, timeout=600,
      bounds="image height %d x widths {1,2,3,4,5,7,8,9}, every block position (enumerated), every pixel (symbolic), all pixel contents" % hh,
      encodes=["bcn::color::copy_block_buffer"])
for (w, h, t) in ((1, 1, "quick"), (4, 4, "quick"), (5, 5, "quick"), (6, 4, "quick"), (3, 7, "quick"), (8, 8, "thorough"), (9, 2, "thorough")):
    H("C13", "bcn", "c13_image_bc1_%dx%d" % (w, h), tier=t, timeout=900, unwind=18, bounds="BC1 image %dx%d (concrete size), all data bytes, every pixel" % (w, h),
      encodes=["bcn::decode_bc1 (block_decoder! macro)", "bcn::color::copy_block_buffer", "bcn::bc1::decode_bc1_block"])
for f in ("bc3", "bc5"):
    for (w, h, t) in ((4, 4, "quick"), (5, 3, "quick"), (6, 6, "thorough")):
        H("C13", "bcn", "c13_image_%s_%dx%d" % (f, w, h), tier=t, timeout=900, unwind=18,
          bounds="%s image %dx%d (concrete size), all data bytes, every pixel" % (f.upper(), w, h), encodes=["bcn::decode_%s" % f])
H("C13", "bcn", "c13_image_short_data_rejected", unwind=18, bounds="data one byte short / image buffer one pixel short", encodes=["bcn::decode_bc1", "bcn::decode_bc3", "bcn::decode_bc5"])
H("C13", "bcn", "c13_pipeline_witness", expect="witness-fail", bounds="assert(false) twin")
H("C13", "tex", "c13_texture_decode_reorders_bgra", unwind=18, timeout=600, bounds="BC1 4x4 through Texture::decode: all data, every pixel", encodes=["tex::Texture::decode"])
for n in ("2x2x1", "1x2x2", "3x1x1"):
    H("C13", "tex", "c13_from_existing_bgra_" + n, tier="quick" if n in ("2x2x1", "1x2x2") else "thorough", unwind=20, timeout=900,
      bounds="B8G8R8A8 %s: all attribute words, all payload bytes, every pixel" % n, encodes=["tex::Texture::from_existing", "tex::TexHeader (binrw)"],
      cbmc_args=FS256)
for n, t in (("bc1_4x4", "thorough"), ("bc1_5x3", "thorough"), ("bc3_4x4", "thorough"), ("bc5_4x4", "thorough"), ("bc1_4x4x2", "thorough")):
    H("C13", "tex", "c13_from_existing_" + n, tier=t, unwind=20, timeout=1800,
      bounds="%s: all attribute words, all payload bytes, every pixel" % n, encodes=["tex::Texture::from_existing", "tex::Texture::decode"],
      cbmc_args=FS256)

# ================================================================================================
# C05 — Excel sheets
# ================================================================================================
_RR = ["exd::EXD::read_row", "exd::EXD::read_column", "exd::EXD::read_data_raw"]
_CELLS = [("bool_at0", "q"), ("bool_at5", "t"), ("bool_at15", "q"), ("packed0_at1", "q"), ("packed1_at2", "t"), ("packed2_at0", "t"),
          ("packed3_at5", "q"), ("packed4_at15", "q"), ("packed5_at7", "t"), ("packed6_at3", "t"), ("packed7_at14", "q"),
          ("i8_at1", "q"), ("u8_at15", "q"), ("i16_at2", "q"), ("u16_at5", "q"), ("u16_at14", "t"), ("i32_at0", "q"), ("u32_at5", "q"),
          ("u32_at12", "t"), ("f32_at1", "q"), ("f32_at8", "t"), ("i64_at0", "q"), ("u64_at5", "q"), ("u64_at8", "t")]
for n, t in _CELLS:
    H("C05", "exd", "c05_cell_" + n, tier="quick" if t == "q" else "thorough", timeout=300, unwind=18,
      bounds="one row, 16-byte fixed region with all bytes symbolic, one column of the named type at the named (concrete) offset",
      encodes=_RR)
H("C05", "exd", "c05_row_three_columns", timeout=300, unwind=18, bounds="one row, three columns (u16@6, packed bool 2@9, i32@0), all 16 row bytes symbolic", encodes=_RR)
for n, t in (("empty_at0", "quick"), ("len1_at3", "quick"), ("len5_at2", "quick"), ("len12_at9", "thorough")):
    H("C05", "exd", "c05_string_" + n, tier=t, timeout=300, unwind=26,
      bounds="string column: concrete text and heap offset; all other row bytes and all surrounding heap bytes symbolic", encodes=_RR,
      cbmc_args=FS256)
H("C05", "exd", "c05_subrows_2x4", timeout=300, unwind=40, bounds="2 sub-rows of 4 bytes, all bytes symbolic, symbolic sub-row index", encodes=_RR)
H("C05", "exd", "c05_subrows_3x8", timeout=600, tier="thorough", unwind=40, bounds="3 sub-rows of 8 bytes, all bytes symbolic", encodes=_RR)
H("C05", "exd", "c05_subrows_wide_records", timeout=300, unwind=8,
  bounds="3 sub-rows of 33000 bytes (stride arithmetic beyond 16 bits) over a short buffer; packed-bool column (out-of-range cells read as false)",
  encodes=_RR[:2], stubs=["EXD::read_data_raw -> guard returning None for reads past the end, real binrw reader otherwise"])
for n in ("second", "first_of_duplicates", "unknown", "big_id", "unsorted_index"):
    H("C05", "exd", "c05_row_lookup_" + n, timeout=300, unwind=18,
      bounds="two index entries, concrete ids per instance (match second / duplicate ids / no match / id >= 2^31 / index not sorted by id), symbolic row contents", encodes=_RR,
      cbmc_args=FS256)
H("C05", "exd", "c05_pipeline_witness", expect="witness-fail", unwind=18, bounds="assert(false) twin")

# C15 continued: equipment / repository
for n in ("roundtrip", "injective", "table"):
    H("C15", "equipment", "c15_slot_abbreviation_" + n, unwind=6, bounds="all 10 slots (pairs for injectivity)",
      encodes=["equipment::get_slot_abbreviation", "equipment::get_slot_from_abbreviation"])
H("C15", "equipment", "c15_character_category_tables", unwind=6, bounds="all pairs of the 5 character categories",
  encodes=["equipment::get_character_category_path", "equipment::get_character_category_abbreviation", "equipment::get_character_category_prefix"])
for n, t in (("6016", "quick"), ("0000", "quick"), ("9999", "thorough"), ("0907", "thorough")):
    H("C15", "equipment", "c15_deconstruct_id_" + n, tier=t, unwind=8, timeout=300,
      bounds="file name cRRRReIIII_sss.EEE: id digits " + n + " and slot concrete, all race digits and all ASCII extension bytes symbolic",
      encodes=["equipment::deconstruct_equipment_path", "equipment::get_slot_from_abbreviation", "core::str::parse::<i32>"])
# NOTE: c15_equipment_path_* and c15_filenames_* (harness code kept in harness/equipment.rs, harness/repository.rs) are not
# registered: every function that goes through format! -- even with fully concrete arguments -- came back without a verdict
# (900 s / 3000 s caps, measured 2026-09-26); see DESIGN.md.
H("C15", "equipment", "c15e_pipeline_witness", expect="witness-fail", bounds="assert(false) twin")
H("C15", "repository", "c15_repository_order_total", unwind=4, bounds="all triples of repository types (Base | Expansion{any i32}) with at most one Base",
  encodes=["repository::Repository::cmp", "repository::Repository::partial_cmp"])
H("C15", "repository", "c15_category_table", unwind=14, bounds="all 15 categories", encodes=["repository::Category"])
H("C15", "repository", "c15_string_to_category_table", unwind=14, bounds="15 documented names + all two-letter lower-case words", encodes=["repository::string_to_category"])
H("C15", "repository", "c15_platform_strings", unwind=8, bounds="all 5 platforms", encodes=["common::get_platform_string"])
H("C15", "repository", "c15r_pipeline_witness", expect="witness-fail", bounds="assert(false) twin")

# ================================================================================================
# C06 / C07 — typed attribute readers / writers (model_file_operations.rs)
# ================================================================================================
_HALFSTUB = ["half::binary16::arch::f16_to_f32 / f32_to_f16 (run-time F16C dispatch, inline asm) -> half's own portable *_const conversion"]
H("C06", "model_ops", "c06_read_byte_float4", unwind=6, bounds="all 2^32 byte quadruples", encodes=["model::MDL::read_byte_float4"])
H("C06", "model_ops", "c06_read_half4", unwind=6, timeout=300, bounds="all 2^64 inputs (every 16-bit half pattern per component) vs an independent IEEE binary16->binary32 conversion",
  encodes=["model::MDL::read_half4", "half::f16::to_f32 (portable path)"], stubs=_HALFSTUB)
H("C06", "model_ops", "c06_read_half2", unwind=6, timeout=300, bounds="all 2^32 inputs", encodes=["model::MDL::read_half2"], stubs=_HALFSTUB)
H("C06", "model_ops", "c06_read_raw_tuples", unwind=6, bounds="all 16-byte inputs: byte4, single3, single4, unsigned_short4",
  encodes=["model::MDL::read_byte4", "model::MDL::read_single3", "model::MDL::read_single4", "model::MDL::read_unsigned_short4"])
H("C06", "model_ops", "c06_read_tangent", unwind=6, bounds="all 2^32 byte quadruples", encodes=["model::MDL::read_tangent"])
H("C06", "model_ops", "c06_pad_slice", unwind=6, bounds="all float bit patterns", encodes=["model::MDL::pad_slice"])
H("C06", "model_ops", "c06m_pipeline_witness", expect="witness-fail", bounds="assert(false) twin")
H("C07", "model_ops", "c07_byte_float4_reencode", unwind=6, timeout=300, bounds="all 256 values per component (2^32 quadruples)",
  encodes=["model::MDL::read_byte_float4", "model::MDL::write_byte_float4"])
H("C07", "model_ops", "c07_tangent_reencode", unwind=6, timeout=300, bounds="all 256 values for x,y,z; w in {0,255} (canonical)",
  encodes=["model::MDL::read_tangent", "model::MDL::write_tangent"])
H("C07", "model_ops", "c07_half4_reencode", unwind=10, timeout=600, bounds="all pairs of non-NaN half patterns (63488^2), placed in components (0,2) and (1,3)",
  encodes=["model::MDL::read_half4", "model::MDL::write_half4"], stubs=_HALFSTUB)
H("C07", "model_ops", "c07_half2_reencode", unwind=10, timeout=600, bounds="all pairs of non-NaN half patterns", encodes=["model::MDL::read_half2", "model::MDL::write_half2"], stubs=_HALFSTUB)
H("C07", "model_ops", "c07_raw_tuples_reencode", unwind=18, timeout=300, bounds="all 16-byte inputs: single4, single3, byte4 bit-exact",
  encodes=["model::MDL::read_single4", "model::MDL::write_single4", "model::MDL::read_single3", "model::MDL::write_single3", "model::MDL::read_byte4", "model::MDL::write_byte4"])
H("C07", "model_ops", "c06m_pipeline_witness", expect="witness-fail", bounds="assert(false) twin")

# ================================================================================================
# C14 — materials / shader packages
# ================================================================================================
H("C14", "cfo", "c14_half_tuples_map", unwind=8, bounds="all 2^48 (u16,u16,u16) triples", encodes=["common_file_operations::read_half1", "read_half2", "read_half3"])
H("C14", "cfo", "c14_half_tuples_binread", unwind=8, timeout=300, bounds="all 6-byte inputs through the real BinRead impls",
  encodes=["common_file_operations::Half1/Half2/Half3 as BinRead (br(map))"])
H("C14", "cfo", "c14_bool_helpers", bounds="all u8 / u16 / bool", encodes=["common_file_operations::read_bool_from", "write_bool_as"])
H("C14", "cfo", "c14c_pipeline_witness", expect="witness-fail", bounds="assert(false) twin")

# ================================================================================================
# C01 — archive lookup
# ================================================================================================
_LOW = ["str::to_lowercase -> ASCII model (documented behaviour on ASCII input)"]
H("C01", "sqpack_index", "c01_file_entry_data_bits", unwind=6, bounds="all 2^32 entry words", encodes=["sqpack::index::FileEntryData::read_options"])
H("C01", "sqpack_index", "c01_file_entry_index1_layout", unwind=6, timeout=300, bounds="all 16-byte Index1 entries", encodes=["sqpack::index::FileEntry (binrw)", "sqpack::index::Hash (binrw)"])
for n, t in ((1, "quick"), (2, "quick"), (3, "thorough"), (4, "thorough")):
    H("C01", "sqpack_index", "c01_partial_hash_len%d" % n, tier=t, unwind=10, timeout=1200,
      bounds="all ASCII strings of length %d (128^%d)" % (n, n), encodes=["sqpack::index::SqPackIndex::calculate_partial_hash", "crc::Jamcrc::checksum"], stubs=_LOW)
for n, t in (("dir1", "quick"), ("dir2", "thorough"), ("dir3", "thorough")):
    H("C01", "sqpack_index", "c01_full_hash_" + n, tier=t, unwind=12, timeout=300,
      bounds="paths <all ASCII directory strings of length %s, '/' allowed>/<concrete mixed-case file name>" % n[3:],
      encodes=["sqpack::index::SqPackIndex::calculate_hash"], stubs=_LOW + ["core::slice::memchr::memrchr -> naive backward scan"])
for n in ("index1", "index2"):
    H("C01", "sqpack_index", "c01_find_entry_" + n, unwind=6, timeout=600, bounds="3 entries with symbolic hashes / dat ids / offsets, symbolic query hash",
      encodes=["sqpack::index::SqPackIndex::find_entry", "sqpack::index::SqPackIndex::exists"], stubs=["SqPackIndex::calculate_hash -> abstract value"], replay="structural")
H("C01", "sqpack_index", "c01i_pipeline_witness", expect="witness-fail", bounds="assert(false) twin")
_RS = ["std::hash::RandomState::new -> fixed keys (needed to construct the HashMap field; the map is not used)"]
H("C01", "gamedata", "c01_repository_selection_bg", unwind=12, timeout=600, bounds="paths bg/<3 symbolic bytes [a-z][a-z][0-9]>/<1 symbolic letter> over repositories ffxiv, ex1, ex2",
  encodes=["gamedata::GameData::parse_repository_category", "repository::string_to_category"], stubs=_RS)
H("C01", "gamedata", "c01_repository_selection_shapes", unwind=28, timeout=300, bounds="8 concrete path shapes (deep path, no repository token, repository token last, names that only begin like an expansion, unknown category, no directory)",
  encodes=["gamedata::GameData::parse_repository_category"], stubs=_RS + ["core::slice::memchr::memchr_aligned -> naive forward scan"])
H("C01", "gamedata", "c01g_pipeline_witness", expect="witness-fail", bounds="assert(false) twin", stubs=_RS)

# ================================================================================================
# C02 / C03 / C04 — block reader / writer kernels (sqpack/mod.rs, sqpack/data.rs BlockHeader)
# ================================================================================================
H("C02", "sqpack_mod", "c02_block_header_decode", unwind=6, timeout=150, bounds="all 2^128 block headers", encodes=["sqpack::data::BlockHeader (binrw)", "sqpack::data::CompressionMode (br(map))"])
H("C02", "sqpack_mod", "c02_block_header_write_layout", unwind=6, timeout=300, bounds="all sizes / lengths, both modes", encodes=["sqpack::data::BlockHeader (BinWrite)"])
for n, t in (("len0", "quick"), ("len1_at128", "quick"), ("len33_at7", "quick"), ("len128_at0", "thorough")):
    H("C02", "sqpack_mod", "c02_raw_block_" + n, tier=t, unwind=140, timeout=600, bounds="raw block, concrete length/position " + n + ", all content bytes", encodes=["sqpack::read_data_block"], cbmc_args=FS256)
_ORA = ["compression::no_header_decompress -> abstract oracle (records its input, returns nondeterministic output / status)"]
H("C02", "sqpack_mod", "c02_deflated_block_contract", unwind=40, timeout=600, bounds="deflated block, compressed length 5 / decompressed 9 at offset 3, all stream bytes, every oracle result",
  encodes=["sqpack::read_data_block"], stubs=_ORA, replay="structural", cbmc_args=FS256)
H("C02", "sqpack_mod", "c02_deflated_block_contract_b", tier="quick", unwind=40, timeout=600, bounds="deflated block 12 -> 4 at offset 0 (a stream longer than its content: stored deflate blocks, tiny blocks)", encodes=["sqpack::read_data_block"], stubs=_ORA, replay="structural", cbmc_args=FS256)
H("C02", "sqpack_mod", "c02_pipeline_witness", expect="witness-fail", bounds="assert(false) twin")
for n, t in (("len1", "quick"), ("len112", "quick"), ("len113", "quick"), ("len128", "thorough")):
    H("C03", "sqpack_mod", "c03_patch_raw_block_" + n, tier=t, unwind=140, timeout=600, bounds="patch raw block of " + n[3:] + " bytes, all content", encodes=["sqpack::read_data_block_patch"], cbmc_args=FS1K)
for n, t in (("len5", "quick"), ("len112", "quick"), ("len113", "thorough")):
    H("C03", "sqpack_mod", "c03_patch_deflated_block_" + n, tier=t, unwind=260, timeout=600, bounds="patch deflated block, compressed length " + n[3:] + ", abstract inflate oracle",
      encodes=["sqpack::read_data_block_patch"], stubs=_ORA, replay="structural", cbmc_args=FS1K)
H("C03", "sqpack_mod", "c02_pipeline_witness", expect="witness-fail", bounds="assert(false) twin")
for n, t in (("len1", "quick"), ("len111", "thorough"), ("len112", "quick"), ("len113", "quick"), ("len128", "thorough"), ("len240", "thorough")):
    H("C04", "sqpack_mod", "c04_patch_block_roundtrip_" + n, tier=t, unwind=260, timeout=600, bounds="write_data_block_patch -> read_data_block_patch, " + n[3:] + " content bytes (all values)",
      encodes=["sqpack::write_data_block_patch", "sqpack::read_data_block_patch"], cbmc_args=FS1K)
H("C04", "sqpack_mod", "c02_pipeline_witness", expect="witness-fail", bounds="assert(false) twin")

# ================================================================================================
# C18 — inflate lifecycle
# ================================================================================================
_Z = ["libz_rs_sys::inflateInit2_ / inflate / inflateEnd -> nondeterministic status codes + ghost live-stream counter"]
H("C18", "compression", "c18_inflate_stream_released", unwind=4, bounds="every combination of zlib status codes", encodes=["compression::no_header_decompress"], stubs=_Z, replay="structural")
H("C18", "compression", "c18c_pipeline_witness", expect="witness-fail", bounds="assert(false) twin", stubs=_Z)

# ================================================================================================
# C09 — character presets / gear sets
# ================================================================================================
_MC = ["core::slice::memchr::memchr_aligned -> naive forward scan"]
for n, t in (("empty_comment", "thorough"), ("ascii_comment", "thorough"), ("non_ascii_comment", "quick")):
    H("C09", "chardat", "c09_checksum_" + n, tier=t, unwind=200, timeout=600, bounds="all 24 byte-valued appearance fields, all timestamps (symbolic); race/tribe/gender and comment text concrete (" + n + ")",
      encodes=["chardat::CharacterData::calc_checksum", "chardat::CustomizeData (BinWrite)", "common_file_operations::write_string"], stubs=_MC, cbmc_args=FS256,
      kani_args=["--no-assertion-reach-checks"])
for n in ("ascii", "empty"):
    H("C09", "chardat", "c09_written_layout_" + n, tier="thorough", unwind=200, timeout=600, bounds="all appearance field values / version / timestamp (symbolic); tags and comment concrete (" + n + ")",
      encodes=["chardat::CharacterData (BinWrite)", "chardat::CharacterData::calc_checksum"], stubs=_MC, cbmc_args=FS256)
H("C09", "chardat", "c09_parse_field_positions", tier="thorough", unwind=200, timeout=900, bounds="212-byte file, all appearance bytes / version / timestamp / stored checksum symbolic; tags and comment concrete",
  encodes=["chardat::CharacterData::from_existing"], cbmc_args=FS256)
H("C09", "chardat", "c09_pipeline_witness", expect="witness-fail", bounds="assert(false) twin", stubs=_MC, cbmc_args=FS256)
H("C09", "gearsets", "c09_gear_id_marker_disjoint_ids", bounds="all u32 ids sharing no bit with 1_000_000", encodes=["gearsets::convert_to_gear_id", "gearsets::convert_from_gear_id"])
H("C09", "gearsets", "c09_gear_id_marker_overlapping_ids", bounds="all ids < 1_000_000 sharing a bit with 1_000_000", encodes=["gearsets::convert_to_gear_id", "gearsets::convert_from_gear_id"])
H("C09", "gearsets", "c09_optional_ids", bounds="all u32", encodes=["gearsets::convert_id_opt", "gearsets::convert_opt_id"])
H("C09", "gearsets", "c09_gear_slot_layout", unwind=10, timeout=300, bounds="all item ids (disjoint from the marker), glamour ids, five unknown words", encodes=["gearsets::GearSlot (BinRead/BinWrite)"])
H("C09", "gearsets", "c09_dat_header_layout", unwind=10, timeout=300, bounds="all sizes", encodes=["dat::DatHeader (BinRead/BinWrite)"])
H("C09", "gearsets", "c09_slot_type_tables", unwind=4, bounds="all usize", encodes=["gearsets::GearSlotType::try_from", "gearsets::GearSlotType::to_slot"])
H("C09", "gearsets", "c09_gearset_table_positions", tier="thorough", unwind=104, timeout=1800, cbmc_args=["--max-field-sensitivity-array-size", "16384"], bounds="100-entry list with positions 0, 57, 99 occupied (symbolic index bytes)", encodes=["gearsets::convert_to_gearsets"],
  stubs=["std::hash::RandomState::new -> fixed keys"])
for n, t in ((46, "quick"), (45, "thorough"), (1, "quick")):
    H("C09", "gearsets", "c09_gearset_name_len%d" % n, tier=t, unwind=50, timeout=600, bounds="all ASCII gear-set names of length %d (the name field holds 46 bytes + terminator): write-side conversion keeps every byte" % n,
      encodes=["gearsets::convert_from_string", "binrw::NullString::from"], stubs=["core::str::validations::run_utf8_validation -> ASCII-only model"])
H("C09", "gearsets", "c09_gearset_name_concrete46", unwind=50, timeout=300, bounds="one concrete 46-byte name (the longest the field holds): all 46 bytes kept; decided by constant propagation",
  encodes=["gearsets::convert_from_string", "binrw::NullString::from"], stubs=["core::str::validations::run_utf8_validation -> ASCII-only model"])
H("C09", "gearsets", "c09g_pipeline_witness", expect="witness-fail", bounds="assert(false) twin")

# ================================================================================================
# C10 — file info tables
# ================================================================================================
for n, t in (("name8", "quick"), ("name1", "quick"), ("name63", "thorough")):
    H("C10", "fiin", "c10_entry_layout_" + n, tier=t, unwind=70, timeout=300, bounds="one record: all sizes, all digests (symbolic), concrete name " + n, encodes=["fiin::FIINEntry (BinWrite)"], cbmc_args=FS256)
H("C10", "fiin", "c10_entry_layout_non_ascii_name", unwind=70, timeout=300, bounds="one record: all sizes, all digests (symbolic), concrete 13-byte name with 2-, 3- and 4-byte UTF-8 characters", encodes=["fiin::FIINEntry (BinWrite)"], cbmc_args=FS256)
H("C10", "fiin", "c10_entry_layout_symbolic_ascii_name5", unwind=70, timeout=300, bounds="one record: all sizes, digests and all 5-byte ASCII names without NUL (symbolic)", encodes=["fiin::FIINEntry (BinWrite)"], cbmc_args=FS256)
H("C10", "fiin", "c10_table_layout_one_entry", unwind=70, timeout=600, bounds="table with one entry: all sizes / digests", encodes=["fiin::FileInfo (BinWrite)"], cbmc_args=["--max-field-sensitivity-array-size", "2048"])
H("C10", "fiin", "c10_parse_one_entry", tier="thorough", unwind=70, timeout=400, bounds="1120-byte table: all sizes / digest bytes, concrete name", encodes=["fiin::FileInfo::from_existing"], cbmc_args=["--max-field-sensitivity-array-size", "2048"])
H("C10", "fiin", "c10_pipeline_witness", expect="witness-fail", unwind=70, bounds="assert(false) twin", cbmc_args=FS256)

# ================================================================================================
# C16 — auxiliary decoders
# ================================================================================================
H("C16", "pbd", "c16_deform_chain_walk", unwind=20, timeout=300, bounds="4-node tree with link table permuted against the item table; 5 concrete queries; all matrix values (symbolic)",
  encodes=["pbd::PreBoneDeformer::get_deform_matrices"], cbmc_args=FS1K, unwind_is_violation="get_deform_matrices")
H("C16", "pbd", "c16p_pipeline_witness", expect="witness-fail", unwind=8, bounds="assert(false) twin", cbmc_args=FS1K)
H("C16", "cmp", "c16_scaling_row_exact", unwind=6, timeout=300, bounds="all 56-byte rows", encodes=["cmp::RacialScalingParameters (binrw)"])
H("C16", "cmp", "c16c_pipeline_witness", expect="witness-fail", unwind=6, bounds="assert(false) twin")
_FMT = ["alloc::fmt::format -> returns an empty String (file-name formatting is not the subject)"]
H("C16", "tera", "c16_terrain_plate_positions", tier="quick", unwind=6, timeout=900, bounds="2 plates: all i16 coordinates, all plate sizes <= 4096", encodes=["tera::Terrain::from_existing", "tera::TerrainHeader (binrw)"],
  stubs=_FMT, cbmc_args=FS256)
H("C16", "tera", "c16_terrain_write_grid_coordinates", unwind=6, timeout=600, bounds="1 plate on the 128-unit grid: all i16 x, y", encodes=["tera::Terrain::write_to_buffer"], cbmc_args=FS256)
H("C16", "tera", "c16t_pipeline_witness", expect="witness-fail", unwind=6, bounds="assert(false) twin")
H("C18", "cmp", "c18_cmp_short_buffer", unwind=6, timeout=300, bounds="all 12-byte buffers (shorter than the table offset 0x2a800)", encodes=["cmp::CMP::from_existing"])

# C14 continued: colour / dye rows, selectors, node lookup
_H1 = ["half::binary16::arch::f16_to_f32 (run-time F16C dispatch) -> half's portable to_f32_const"]
H("C14", "mtrl", "c14_legacy_color_row", unwind=13, timeout=600, bounds="all 32-byte rows (every half pattern in every component)", encodes=["mtrl::LegacyColorTableRow (BinRead)", "common_file_operations::Half1/2/3"], stubs=_H1)
H("C14", "mtrl", "c14_dawntrail_color_row", tier="thorough", unwind=13, timeout=900, bounds="all 64-byte rows", encodes=["mtrl::DawntrailColorTableRow (BinRead)"], stubs=_H1)
H("C14", "mtrl", "c14_dye_rows", unwind=6, timeout=300, bounds="all u16 legacy / u32 Dawntrail dye words", encodes=["mtrl::LegacyColorDyeTableRow", "mtrl::DawntrailColorDyeTableRow"])
H("C14", "mtrl", "c14m_pipeline_witness", expect="witness-fail", unwind=6, bounds="assert(false) twin")
H("C14", "shpk", "c14_selector_polynomial", unwind=12, timeout=300, bounds="all key lists of length 0..10 (symbolic length and keys; 31^7.. exceed 32 bits)", encodes=["shpk::ShaderPackage::build_selector"])
H("C14", "shpk", "c14_selector_from_all_keys", unwind=8, timeout=300, bounds="key lists of lengths (2,1,3,2), all key values", encodes=["shpk::ShaderPackage::build_selector_from_all_keys", "build_selector_from_keys"])
H("C14", "shpk", "c14_find_node_resolution", unwind=8, timeout=600, bounds="2 nodes + 2 aliases with symbolic selectors / in-range targets, symbolic query", encodes=["shpk::ShaderPackage::find_node"], cbmc_args=FS1K)
H("C14", "shpk", "c14s_pipeline_witness", expect="witness-fail", unwind=8, bounds="assert(false) twin")
H("C18", "shpk", "c18_find_node_alias_out_of_range", unwind=8, timeout=300, bounds="1 node + 1 alias with any target index, symbolic query", encodes=["shpk::ShaderPackage::find_node"], cbmc_args=FS1K)

# C06 / C07 / C18: vertex declarations
H("C06", "model_decl", "c06_declaration_parse_three_elements", unwind=20, timeout=600, bounds="1 declaration, 3 elements (concrete stream/type/usage, symbolic offset/usage index), all bytes after the terminator symbolic",
  encodes=["model_vertex_declarations::vertex_element_parser", "VertexElement (binrw)"], cbmc_args=FS1K)
H("C06", "model_decl", "c06_declaration_parse_two_declarations", unwind=20, timeout=600, bounds="2 declarations (1 and 2 elements): 17-slot stride", encodes=["model_vertex_declarations::vertex_element_parser"], cbmc_args=FS1K)
H("C06", "model_decl", "c06_vertex_type_sizes", bounds="size table for the supported types", encodes=["model_vertex_declarations::get_vertex_type_size"])
H("C06", "model_decl", "c06d_pipeline_witness", expect="witness-fail", unwind=20, bounds="assert(false) twin", cbmc_args=FS1K)
H("C07", "model_decl", "c07_declaration_write_parse_roundtrip", unwind=20, timeout=600, bounds="2 declarations (2 and 3 elements), symbolic offsets / usage indices",
  encodes=["model_vertex_declarations::vertex_element_writer", "model_vertex_declarations::vertex_element_parser"], cbmc_args=FS1K)
H("C18", "model_decl", "c18_declaration_seventeen_elements", unwind=22, timeout=300, bounds="declaration with 17 elements before the terminator", encodes=["model_vertex_declarations::vertex_element_parser"], cbmc_args=FS1K)

# ================================================================================================
# C17 — untrusted user / launcher files (narrow)
# ================================================================================================
H("C17", "cfo", "c17_read_string_ascii", unwind=8, timeout=300, bounds="all 3-byte ASCII inputs (2 text bytes + text/NUL)", encodes=["common_file_operations::read_string"])
H("C17", "cfo", "c17_read_string_any_bytes", unwind=8, timeout=300, bounds="all 2-byte inputs", encodes=["common_file_operations::read_string"])
H("C17", "cfo", "c17_write_string_plain", unwind=8, timeout=300, bounds="all 3-byte ASCII strings without NUL", encodes=["common_file_operations::write_string", "get_string_len"])
H("C17", "cfo", "c17_write_string_interior_nul", unwind=8, timeout=300, bounds="all 3-byte ASCII strings (NUL allowed)", encodes=["common_file_operations::write_string"])
H("C17", "cfo", "c14c_pipeline_witness", expect="witness-fail", bounds="assert(false) twin")
for n, st in (("oversized_header_deflated", _ORA), ("oversized_header_raw", []), ("negative_raw_length", []), ("sane_header", [])):
    H("C17", "sqpack_mod", "c17_patch_block_" + n, unwind=70, timeout=300, bounds="concrete block header (" + n + "), 40 symbolic bytes of block data",
      encodes=["sqpack::read_data_block_patch"], stubs=st, cbmc_args=FS256)
H("C17", "execlookup", "c17_find_needle_terminated", unwind=12, timeout=300, bounds="one concrete file image (needle + text + terminator); decided by constant propagation", encodes=["execlookup::find_needle", "execlookup::from_u16"])
H("C17", "execlookup", "c17_find_needle_unterminated", unwind=12, timeout=300, bounds="one concrete file image ending right after the text", encodes=["execlookup::find_needle"])
H("C17", "execlookup", "c17_find_needle_absent", unwind=12, timeout=300, bounds="all 6-byte files without a zero high byte", encodes=["execlookup::find_needle"])

# C18 continued
_GR = ["EXD::read_data_raw -> guard returning None for reads past the end, real binrw reader otherwise"]
H("C18", "exd", "c18_read_row_cell_past_end", unwind=20, timeout=300, bounds="one row, column offset 200 beyond the 54-byte file", encodes=_RR[:2], stubs=_GR)
H("C18", "pbd", "c18_deform_link_index_out_of_range", unwind=20, timeout=300, bounds="4-node tree, start item's link index 9 (table has 4 links)", encodes=["pbd::PreBoneDeformer::get_deform_matrices"], cbmc_args=FS1K)
H("C18", "pbd", "c18_deform_parent_cycle_terminates", unwind=16, timeout=300, bounds="4-node tree with a 2-cycle in the parent links; loop must exit within 10 iterations",
  encodes=["pbd::PreBoneDeformer::get_deform_matrices"], cbmc_args=FS1K, unwind_is_violation="get_deform_matrices")
H("C18", "tex", "c18_texture_short_payload_bc1", unwind=20, timeout=300, bounds="BC1 4x4 header with 4 payload bytes instead of 8, any attribute word", encodes=["tex::Texture::from_existing"], cbmc_args=FS256)
H("C18", "tex", "c18_texture_short_payload_bgra", unwind=20, timeout=300, bounds="B8G8R8A8 2x1 header with 6 payload bytes instead of 8", encodes=["tex::Texture::from_existing"], cbmc_args=FS256)

# C12 also covers the path hash (JAMCRC of the lower-cased path, case-insensitive): same harnesses as C01
for n, t in ((1, "quick"), (2, "quick"), (3, "thorough"), (4, "thorough")):
    H("C12", "sqpack_index", "c01_partial_hash_len%d" % n, tier=t, unwind=10, timeout=1200,
      bounds="all ASCII strings of length %d: partial path hash = JAMCRC of the lower-cased bytes; equal for both cases" % n,
      encodes=["sqpack::index::SqPackIndex::calculate_partial_hash", "crc::Jamcrc::checksum"], stubs=_LOW)

# C07: header recomputation (one inductive step from an arbitrary stale header)
_UH = ["model::MDL::update_headers", "model::ModelFileHeader::calculate_stack_size", "model::ModelData::calculate_runtime_size"]
H("C07", "model", "c07_update_headers_two_lods", tier="thorough", unwind=5, timeout=1500, bounds="2 LODs x 1 mesh: vertex count <= 255, strides <= 15 (reduced widths: symbolic products), 1..3 streams, index count <= 2^24, arbitrary stale header values",
  encodes=_UH, cbmc_args=FS1K)
H("C07", "model", "c07_update_headers_two_meshes", tier="thorough", unwind=5, timeout=2400, bounds="1 LOD x 2 meshes, same widths", encodes=_UH, cbmc_args=FS1K)
H("C07", "model", "c07_replace_vertices_step", unwind=8, timeout=900, bounds="1 mesh: replace by 3 vertices / 6 symbolic indices / 1 sub-mesh with symbolic offset, from an arbitrary stale header",
  encodes=["model::MDL::replace_vertices"] + _UH, cbmc_args=FS1K)
H("C07", "model", "c07m_pipeline_witness", expect="witness-fail", unwind=5, bounds="assert(false) twin", cbmc_args=FS1K)

# later additions
H("C05", "exd", "c05_subrows_with_strings", timeout=300, unwind=40, bounds="2 sub-rows each with a string cell (concrete texts / offsets, symbolic sub-row ids): per-sub-row string heap base",
  encodes=_RR, cbmc_args=FS256)
# (c17_gear_slots_positions_* in harness/gearsets.rs are not registered: building the HashMap ran out of memory)
# C10: the digests stored in the table are SHA-1 (decided in full under C12; the padding boundaries also here)
for n in (55, 56, 64, 120):
    H("C10", "sha1", "c12_sha1_padding_len%d" % n, timeout=600, unwind=200, bounds="SHA-1 padding, message length %d (concrete), all contents" % n, **_PAD)
H("C10", "sha1", "c12_sha1_compress_full", tier="thorough", timeout=900, unwind=82, bounds="SHA-1 compression function, all chaining values x all blocks", encodes=["sha1::Sha1State::process"])

# C02: reassembly over an in-memory dat file (environment substitution, see TRANSFORMS)
_MF = ["std::fs::File field of SqPackData -> in-memory file (support/memfile.rs; same Read + Seek behaviour for &handle)"]
H("C02", "sqpack_data", "c02_standard_file_two_blocks", unwind=20, timeout=900, bounds="standard entry at offset 128, 2 raw blocks (5 + 3 bytes, table order != file order), all content bytes",
  encodes=["sqpack::data::SqPackData::read_standard_file", "sqpack::read_data_block"], stubs=_MF, cbmc_args=FS1K)
H("C02", "sqpack_data", "c02_standard_file_no_blocks", unwind=44, timeout=600, bounds="standard entry with an empty block table (a stored zero-length file), all bytes behind the fixed header symbolic: extracts to an empty file",
  encodes=["sqpack::data::SqPackData::read_standard_file"], stubs=_MF, cbmc_args=FS1K)
H("C02", "sqpack_data", "c02_model_file_stack_runtime", tier="thorough", unwind=72, timeout=3000, bounds="model entry: stack 1 block, runtime 2 blocks (raw, 2..4 bytes each), no vertex / index data; all content bytes",
  encodes=["sqpack::data::SqPackData::read_model_file", "sqpack::read_data_block", "model::ModelFileHeader (BinWrite)"], stubs=_MF, cbmc_args=FS1K)
H("C02", "sqpack_data", "c02_model_file_sections", tier="thorough", unwind=72, timeout=3000, bounds="model entry: stack 1 block, runtime 2 blocks, LOD0 vertex 1 + index 1 block (raw, 4..8 bytes each), all content bytes, any version / declaration / material counts",
  encodes=["sqpack::data::SqPackData::read_model_file", "sqpack::read_data_block", "model::ModelFileHeader (BinWrite)"], stubs=_MF, cbmc_args=FS1K)
H("C02", "sqpack_data", "c02d_pipeline_witness", expect="witness-fail", unwind=20, bounds="assert(false) twin", stubs=_MF, cbmc_args=FS1K)

# slot index conversion is total on 0..13 (a record with an item in any on-disk slot must not make the reader panic)
H("C17", "gearsets", "c09_slot_type_tables", unwind=4, bounds="all usize: GearSlotType::try_from is Ok exactly for 0..13", encodes=["gearsets::GearSlotType::try_from(usize)"])

# C03: command decoding
H("C03", "patch", "c03_sqpk_add_data_fields", tier="thorough", unwind=140, timeout=1800, bounds="SQPK add-data with one 128-byte unit of payload (shape), all other header bytes and all payload bytes symbolic", encodes=["patch::SqpkAddData (binrw)"], cbmc_args=FS256)
H("C03", "patch", "c03_sqpk_delete_data_fields", unwind=10, timeout=300, bounds="all 23-byte delete/expand commands", encodes=["patch::SqpkDeleteData (binrw)"])
for n in ("win32", "ps3", "ps4"):
    H("C03", "patch", "c03_sqpk_target_info_" + n, unwind=10, timeout=300, bounds="target info with platform code " + n + " (concrete, big-endian u16), region Global, all other bytes symbolic", encodes=["patch::SqpkTargetInfo (binrw)"], cbmc_args=FS256)
H("C03", "patch", "c03_sqpk_index_and_patch_info", unwind=10, timeout=300, bounds="all 27-byte index commands (command letter concrete) / 11-byte patch infos", encodes=["patch::SqpkIndex", "patch::SqpkPatchInfo"])
for n in ("add", "delete"):
    H("C03", "patch", "c03_sqpk_file_operation_" + n, tier="thorough", unwind=12, timeout=1800, bounds="file operation '" + n + "', path length 8 (concrete path), all offsets / sizes / expansion ids symbolic", encodes=["patch::SqpkFileOperationData (binrw)", "common_file_operations::read_string"])
H("C03", "patch", "c03_chunk_framing_eof_and_apply", tier="thorough", unwind=12, timeout=1800, bounds="EOF_ chunk (no CRC) and APLY chunk (CRC): all size / value / CRC bytes", encodes=["patch::PatchChunk (binrw)", "patch::ChunkType"])
H("C03", "patch", "c03p_pipeline_witness", expect="witness-fail", unwind=10, bounds="assert(false) twin")

# attempts at the remaining gaps (thorough tier, time-boxed; see DESIGN.md section 8)
for n in ("5f", "50", "legacy", "opaque"):
    H("C14", "mtrl", "c14_dye_table_kind_" + n, tier="thorough", unwind=40, timeout=1200, bounds="dye table kind for table_dimension_logs = " + n + ": Dawntrail = 32 rows / 128 bytes, legacy = 16 rows / 32 bytes, other = opaque / 0 bytes; all table bytes symbolic",
      encodes=["mtrl::parse_color_dye_table"], cbmc_args=FS256)
# C15 / C05: file names and game paths through the format! engine model (FORMAT_MODEL)
for n in ("win32", "ps3", "ps4", "ps5", "lys"):
    H("C15", "repository", "c15_filenames_all_" + n, unwind=24, timeout=600,
      bounds="platform " + n + ": all 15 categories x expansions 0..9 x chunks 0..9 x data files 0..7 (symbolic): index / index2 / dat file names, exact text",
      encodes=["repository::Repository::index_filename", "repository::Repository::index2_filename", "repository::Repository::dat_filename", "common::get_platform_string"],
      stubs=FMT, cbmc_args=FS256)
H("C15", "equipment", "c15_equipment_path_all", unwind=100, timeout=600, bounds="all ids 0..9999 x all valid (race, tribe, gender) x all 10 slots: exact path text",
  encodes=["equipment::build_equipment_path", "race::get_race_id", "equipment::get_slot_abbreviation"], stubs=FMT, cbmc_args=FS256)
H("C15", "equipment", "c15_character_path_all", unwind=100, timeout=600, bounds="all versions 0..9999 x all valid triples x all 5 character categories: exact path text",
  encodes=["equipment::build_character_path", "race::get_race_id"], stubs=FMT, cbmc_args=FS256)
H("C15", "equipment", "c15_skeleton_path_all", unwind=100, timeout=600, bounds="all valid triples: exact path text", encodes=["race::build_skeleton_path", "race::get_race_id"], stubs=FMT, cbmc_args=FS256)
H("C15", "equipment", "c15_material_paths_all", unwind=100, timeout=600, bounds="six material path builders, all codes 0..9999 x 0..9999, concrete material name: exact path text",
  encodes=["equipment::build_gear_material_path", "build_skin_material_path", "build_face_material_path", "build_hair_material_path", "build_ear_material_path", "build_tail_material_path"],
  stubs=FMT, cbmc_args=FS256)
H("C05", "exd", "c05_page_filename_ids_below_100000", unwind=100, timeout=900, bounds="all page start ids 0..99999 x all 8 languages (symbolic), concrete sheet name: exact file name text",
  encodes=["exd::EXD::calculate_filename", "common::get_language_code"], stubs=FMT, cbmc_args=FS256)
H("C05", "exd", "c05_page_filename_wide_ids", unwind=100, timeout=900, bounds="start ids 4294967295, 1000000000, 123456789 (concrete) x all 8 languages (symbolic)",
  encodes=["exd::EXD::calculate_filename", "common::get_language_code"], stubs=FMT, cbmc_args=FS256)

# VERIF_SEED-chosen extra shapes (gen/params.rs; the chosen values are copied into the evidence by the driver)
H("C12", "sha1", "c12_sha1_padding_seeded_len", timeout=600, unwind=200, bounds="SHA-1 padding, one more message length chosen by VERIF_SEED (2..189), all contents", **_PAD)
H("C04", "sqpack_mod", "c04_patch_block_roundtrip_seeded_len", tier="thorough", unwind=260, timeout=900, bounds="patch block write->read, one more length chosen by VERIF_SEED (2..249), all content bytes",
  encodes=["sqpack::write_data_block_patch", "sqpack::read_data_block_patch"], cbmc_args=FS1K)
H("C13", "bcn", "c13_image_bc1_seeded_size", unwind=18, timeout=900, bounds="BC1 image of a size chosen by VERIF_SEED (1..9 x 1..9), all data bytes, every pixel", encodes=["bcn::decode_bc1"])
H("C05", "exd", "c05_cell_u32_seeded_offset", timeout=300, unwind=18, bounds="u32 column at an offset chosen by VERIF_SEED (0..8), all 16 row bytes", encodes=_RR)
H("C05", "exd", "c05_cell_packed5_seeded_offset", timeout=300, unwind=18, bounds="packed bool 5 column at an offset chosen by VERIF_SEED (0..8), all 16 row bytes", encodes=_RR)

H("C05", "exd", "c05_language_ids_and_codes", unwind=10, timeout=300, bounds="all 8 language ids: parsed value and file-name code", encodes=["common::Language (binrw repr)", "common::get_language_code"])

H("C02", "sqpack_data", "c02_texture_file_two_mips", unwind=24, timeout=900, bounds="texture entry: 16 header bytes, mip 0 = 2 raw blocks (padded 128 / 256), mip 1 = 2 raw blocks; all header and content bytes symbolic",
  encodes=["sqpack::data::SqPackData::read_texture_file", "sqpack::read_data_block"],
  stubs=_MF + ["compression::no_header_decompress -> always fails (all blocks of the entry are raw; reaching it means a block header was read from the wrong place)"], cbmc_args=FS1K)

# C06: whole-file parse of a generated minimal model (possible since the binrw counted-vector model)
H("C06", "model", "c06_from_existing_minimal_model", tier="thorough", unwind=80, timeout=2400,
  bounds="minimal v5 model: 1 LOD, 1 mesh, declaration {Position Single3, UV Single4 (stream 0); UV Half2, Color ByteFloat4 (stream 1)}, 2 vertices, 3 indices, 1 sub-mesh, 1 material name; stream 1 stored 4 bytes behind the end of stream 0 (streams not back to back); all 82 vertex / gap / index buffer bytes symbolic",
  encodes=["model::MDL::from_existing", "model::ModelData (binrw)", "model_vertex_declarations::vertex_element_parser", "model_file_operations readers"],
  stubs=_HALFSTUB, cbmc_args=FS1K, kani_args=["--no-assertion-reach-checks"],
  no_cover="harness without any kani::assume (both vertices and all stream bytes are enumerated); cover!/reachability checks dropped because trace generation on the 3.6 M-variable formula ran out of memory")

# (c18_model_truncated_in_vertex_buffer in harness/model.rs is not registered: out of memory at 10 GB after 35 min)
for n in ("index",):
    H("C18", "model", "c18_model_truncated_in_%s_buffer" % n, tier="thorough", unwind=80, timeout=2400, cbmc_args=FS1K, kani_args=["--no-assertion-reach-checks"],
      bounds="the generated minimal model of c06_from_existing_minimal_model cut off inside its %s buffer (length concrete), all buffer bytes symbolic: no panic" % n,
      encodes=["model::MDL::from_existing", "model::ModelData (binrw)"], stubs=_HALFSTUB)

# ================================================================================================
# session 2 additions
# ================================================================================================
_MFS = ["std::fs (File, OpenOptions) of src/patch.rs -> in-memory file model (support/memfs.rs: sparse-file write semantics, "
        "shared cursor, whole-buffer write_all)", "tracing debug!/warn! -> empty macros"]
for n in ("at0_1block", "at2_2blocks", "at3_3blocks_grows_file", "behind_end_leaves_gap"):
    H("C03", "patch", "c03_empty_block_" + n, tier="quick" if n in ("at2_2blocks", "at3_3blocks_grows_file") else "thorough", unwind=70, timeout=600,
      bounds="delete / expand kernel, offset and block count concrete (" + n + "), 512 previous file bytes symbolic: header + zero fill in place, nothing else changes",
      encodes=["patch::write_empty_file_block_at", "patch::wipe_from_offset", "patch::wipe"], stubs=_MFS)
for n in ("inside_file", "nothing", "across_end"):
    H("C03", "patch", "c03_wipe_" + n, tier="quick" if n == "across_end" else "thorough", unwind=70, timeout=600,
      bounds="zero-fill kernel, position and length concrete (" + n + "), 300 previous file bytes symbolic", encodes=["patch::wipe"], stubs=_MFS)

# C03 / C15 / C17: ZiPatch::apply as a whole over the file model and the format engine model (session 3).  Needs two layout-only
# models on top (see TRANSFORMS["patch"] and check: patch_binrw(tagged_results)): explicit tag bytes for patch.rs's data-carrying
# enums and a niche-free binrw::Error, without which nothing read out of a parsed command is a constant for symbolic execution.
_AP = dict(tier="thorough", unwind=160, timeout=3000, cbmc_args=["--max-field-sensitivity-array-size", "2048"], kani_args=["--no-assertion-reach-checks"],
           tagged_results=True, mem_gb=20,
           encodes=["patch::ZiPatch::apply", "patch::PatchChunk / ChunkType / SqpkChunk / SqpkOperation (binrw)", "patch::get_expansion_folder_sub",
                    "common::get_platform_string", "patch::write_empty_file_block_at", "patch::wipe", "sqpack::read_data_block_patch"],
           stubs=_MFS + FMT + ["#[repr(u8)] on patch::ChunkType / SqpkOperation / FileHeaderChunk (layout only)",
                               "`chunk_type != ChunkType::EndOfFile` spelled `!matches!(chunk_type, ChunkType::EndOfFile)`",
                               "binrw::Error (model): #[repr(u8)], 256 variants, one 2 KiB variant never constructed: Result<T, binrw::Error> gets a plain tag instead of rustc's multi-variant niche layout",
                               "core::str::validations::run_utf8_validation -> ASCII-only model", "core::slice::memchr::{memchr_aligned, memrchr} -> naive scans"])
_APB = "patch = header + T (platform concrete) + one command + EOF_; ids, offsets, counts concrete per instance; previous file contents, payload bytes, reserved and CRC bytes symbolic: "
H("C03", "patch", "c03_apply_delete_data", bounds=_APB + "D at block 2, 2 blocks, in a 640-byte dat3 of category 0a / ex1 / chunk 02 / win32", **_AP)
H("C03", "patch", "c03_apply_expand_data", bounds=_APB + "E at block 1, 3 blocks, ps4, data file does not exist yet", **_AP)
H("C03", "patch", "c03_apply_delete_data_across_end", bounds=_APB + "D at block 2, 4 blocks, ps3, file of 384 bytes (range starts inside, ends behind the end)", **_AP)
# NOT registered (harness code kept in harness/patch.rs; measured 2026-09-29): c03_apply_add_data* (alone, no cap: symbolic execution
# 455 s, then the SAT back end ran out of memory beyond 32 GB), c03_apply_header_update_* (1024-byte payload: not attempted alone),
# c03_apply_add_file_new_at_16 (not run alone); c04_create_* lose the constants of the path String (borrowed through three enum
# levels by the derived BinWrite) and end without a verdict.  DESIGN.md section 4, C03.
_STR = ["common_file_operations::read_string / write_string / get_string_len -> byte-level models for ASCII text without interior NUL (the real ones are decided "
        "by c17_read_string_ascii / c17_write_string_plain; they unwrap std Results with the multi-variant niche layout: CString::new, String::from_utf8)"]
_APS = dict(_AP); _APS["stubs"] = _AP["stubs"] + _STR
_APSF = dict(_APS); _APSF["unwind"] = 170
for n, d in (("overwrite_at_3", "the file exists (12 bytes): 5 bytes written at offset 3, every other byte kept"), ("replace_at_0", "the file exists: offset 0 truncates it first, the result is the 5 new bytes")):
    H("C03", "patch", "c03_apply_add_file_" + n, bounds=_APB + "F/A on ab/c.de with one raw 5-byte block between the command and its CRC; " + d + "; a neighbouring file keeps every byte", **_APSF)
H("C03", "patch", "c03_apply_second_target_info_wins", bounds="T(win32), T(ps4), E: the data file of the SECOND platform is created, none for the first (all bytes concrete: decided by constant propagation)", **_AP)
H("C03", "patch", "c03_apply_make_dir_tree", bounds=_APB + "F/M on ab/c.de: the parent directory is created, both existing files keep every byte", **_APS)
H("C03", "patch", "c03_apply_delete_file", bounds=_APB + "F/D on ab/c.de: exactly the named file disappears, its neighbour keeps every byte; offset / size / expansion fields symbolic", **_APS)
# C15: the file names patching writes (closures inside ZiPatch::apply) agree with Repository::dat_filename at these instances
H("C15", "patch", "c03_apply_expand_data", bounds=_APB + "E creates /g/sqpack/ex1/0a0102.ps4.dat3: category, expansion, chunk, platform tag and data-file number as the read side names them", **_AP)
H("C15", "patch", "c03_apply_delete_data", bounds=_APB + "D rewrites /g/sqpack/ex1/0a0102.win32.dat3 (and no other file)", **_AP)
for n in ("without_eof_is_an_error", "cut_mid_command_is_an_error"):
    H("C17", "patch", "c17_apply_patch_" + n, bounds="patch T + D " + n.replace("_", " ") + " (concrete bytes): ZiPatch::apply returns Err", **_AP)

# C07: MDL::write_to_buffer on a directly constructed minimal version-5 model (thorough: 15-17 min each, symbolic execution dominated)
_WB = ["model::MDL::write_to_buffer", "model::ModelFileHeader (BinWrite)", "model::ModelData (BinWrite)", "model_vertex_declarations::vertex_element_writer",
       "model_file_operations writers"]
H("C07", "model", "c07_write_to_buffer_mapping_single", tier="thorough", unwind=140, timeout=2400, cbmc_args=FS1K, kani_args=["--no-assertion-reach-checks"],
  bounds="1 LOD / 1 mesh / 2 vertices / 3 indices, declaration {Position, Normal Single3; UV Single4; BlendWeights, Color ByteFloat4; BlendIndices Byte4; BiTangent}: "
         "raw-copied attributes, indices, bounding boxes, header scalars symbolic; coded attributes concrete and pairwise distinct; every section and element at its byte position",
  encodes=_WB)
H("C07", "model", "c07_write_to_buffer_elements_single", tier="thorough", unwind=140, timeout=2400, cbmc_args=FS1K, kani_args=["--no-assertion-reach-checks"],
  bounds="same shape, every attribute value symbolic (coded attributes compared with the codec applied to the expected attribute)", encodes=_WB)
H("C07", "model", "c07_write_to_buffer_elements_half", tier="thorough", unwind=140, timeout=2400, cbmc_args=FS1K, kani_args=["--no-assertion-reach-checks"],
  bounds="declaration {Position, Normal, UV Half4}, 2 vertices, all attribute values symbolic", encodes=_WB, stubs=_HALFSTUB)

# C14: whole-file parse of a generated minimal shader package
H("C14", "shpk", "c14_shader_package_from_existing", tier="quick", unwind=20, timeout=1500, cbmc_args=FS1K, kani_args=["--no-assertion-reach-checks"],
  bounds="216-byte package: 0 shaders / resource parameters, 1 material parameter, 1 system + 1 material key, 2 nodes x 1 pass, 1 alias (counts concrete); every id, key, "
         "selector, pass field and the alias target (0..2, 2 = missing node) symbolic; symbolic query selector",
  encodes=["shpk::ShaderPackage::from_existing", "shpk::ShaderPackage (BinRead)", "shpk::Node (BinRead)", "shpk::ShaderPackage::find_node"],
  stubs=["core::str::validations::run_utf8_validation -> ASCII-only model"])

# C16: layer string heap, Havok bit-level decoders, terrain parse (decided since the binrw error-diagnostics model)
for n in ("with_spaces", "leading_space_and_punctuation", "empty"):
    H("C16", "layer", "c16_layer_heap_string_" + n, tier="quick" if n != "empty" else "thorough", unwind=16, timeout=600,
      bounds="heap string (" + n + "): concrete text, all surrounding bytes and the reader position symbolic", encodes=["layer::StringHeap::read_string"])
H("C16", "layer", "c16l_pipeline_witness", expect="witness-fail", unwind=16, bounds="assert(false) twin")
for n in (0, 7, 8, 9, 16):
    H("C16", "havok_reader", "c16_havok_bit_field_count%d" % n, tier="quick" if n in (8, 9) else "thorough", unwind=20, timeout=300,
      bounds="presence bit field of %d members, all data bytes symbolic" % n, encodes=["havok::binary_tag_file_reader::HavokBinaryTagFileReader::read_bit_field", "havok::byte_reader::ByteReader"])
H("C16", "havok_reader", "c16_havok_packed_int", unwind=8, timeout=300, bounds="all packed-integer encodings of 1..4 bytes",
  encodes=["havok::binary_tag_file_reader::HavokBinaryTagFileReader::read_packed_int"])
H("C16", "havok_reader", "c16h_pipeline_witness", expect="witness-fail", unwind=8, bounds="assert(false) twin")
H("C14", "shpk", "c14_shader_package_pixel_shader_parameters", tier="quick", unwind=20, timeout=1200, cbmc_args=FS1K, kani_args=["--no-assertion-reach-checks"],
  bounds="140-byte package with one pixel shader: 1 UAV + 1 texture parameter (names in the string blob), 4 bytes of bytecode; offsets / lengths / names concrete, ids, slots, sizes and bytecode symbolic",
  encodes=["shpk::ShaderPackage::from_existing", "shpk::Shader (BinRead)", "shpk::ResourceParameter (BinRead)"], stubs=["core::str::validations::run_utf8_validation -> ASCII-only model"])
H("C14", "mtrl", "c14_material_from_existing_minimal", tier="quick", unwind=20, timeout=1200, cbmc_args=FS1K, kani_args=["--no-assertion-reach-checks"],
  bounds="88-byte material without colour / dye tables: 1 texture path, package name, 1 shader key, 1 constant of two floats, 1 sampler; counts, strings, constant offset / size concrete, everything else symbolic",
  encodes=["mtrl::Material::from_existing", "mtrl::MaterialData (BinRead)"], stubs=["core::str::validations::run_utf8_validation -> ASCII-only model"])
H("C14", "mtrl", "c14_material_two_textures_high_byte", tier="thorough", unwind=20, timeout=1200, cbmc_args=FS1K, kani_args=["--no-assertion-reach-checks"],
  bounds="92-byte material with two texture paths, the first containing the byte 0xE9: second path and package name from their own positions in the string table; the rest as the minimal material",
  encodes=["mtrl::Material::from_existing", "mtrl::MaterialData (BinRead)"], stubs=["core::str::validations::run_utf8_validation -> ASCII-only model"])
H("C16", "pbd", "c16_deformer_from_existing", tier="quick", unwind=16, timeout=1200, cbmc_args=FS1K, kani_args=["--no-assertion-reach-checks"],
  bounds="217-byte deformer file: 2 body ids, 2 links, deformers with 1 bone (odd count: padding) and 2 bones at an unaligned offset; counts, data offsets, names concrete; "
         "body ids, link fields and all 36 matrix words symbolic",
  encodes=["pbd::PreBoneDeformer::from_existing", "pbd::PreBoneDeformerHeader / Item / Link / RacialDeformer (BinRead)", "common_file_operations::strings_parser"])
H("C17", "gearsets", "c17_gearsets_header_with_empty_body", unwind=24, timeout=600, bounds="20-byte file: gear-set tag, content size 0 (concrete), all other bytes symbolic", encodes=["gearsets::GearSets::from_existing", "dat::DatHeader (BinRead)"])
H("C05", "exd", "c05_exh_from_existing", tier="quick", unwind=20, timeout=900, cbmc_args=FS256, kani_args=["--no-assertion-reach-checks"],
  bounds="50-byte sheet header: 2 columns, 1 page, 2 languages (counts, column types / offsets, language ids concrete); version, row count, page bounds symbolic",
  encodes=["exh::EXH::from_existing", "exh::EXHHeader / ExcelColumnDefinition / ExcelDataPagination (BinRead)"])
for n in ("without_additional_data", "with_two_bytes_of_additional_data"):
    H("C18", "mtrl", "c18_material_" + n, tier="quick" if n.startswith("without") else "thorough", unwind=20, timeout=1200, cbmc_args=FS1K, kani_args=["--no-assertion-reach-checks"],
      bounds="the 88-byte minimal material of c14_material_from_existing_minimal " + n.replace("_", " ") + " (size concrete), everything else as there",
      encodes=["mtrl::Material::from_existing", "mtrl::MaterialData (BinRead)"], stubs=["core::str::validations::run_utf8_validation -> ASCII-only model"])
H("C18", "shpk", "c18_shader_package_dangling_aliases", tier="quick", unwind=20, timeout=1200, cbmc_args=FS1K, kani_args=["--no-assertion-reach-checks"],
  bounds="172-byte package: 1 node, 2 aliases with ARBITRARY 32-bit targets, symbolic selectors and query: table construction and lookup never panic; dangling aliases resolve to nothing",
  encodes=["shpk::ShaderPackage::from_existing", "shpk::ShaderPackage::find_node"], stubs=["core::str::validations::run_utf8_validation -> ASCII-only model"])
for n, t in (("one_byte_longer_than_file", "quick"), ("as_long_as_whole_file", "quick"), ("between", "thorough")):
    H("C17", "gearsets", "c17_gearsets_body_" + n, tier=t, unwind=24, timeout=600, bounds="20-byte file: gear-set tag, content size concrete (" + n + ": the body would need more than the 3 bytes present), all other bytes symbolic",
      encodes=["gearsets::GearSets::from_existing", "dat::DatHeader (BinRead)"])
H("C15", "equipment", "c15_deconstruct_concrete_all_slots", unwind=24, timeout=600, bounds="the ten file names c0201e0038_<slot>.mdl (concrete): id 38 and the slot read back",
  encodes=["equipment::deconstruct_equipment_path", "equipment::get_slot_from_abbreviation"], stubs=["core::slice::memchr::memrchr / memchr_aligned -> naive scans"])
H("C14", "mtrl", "c14_material_with_dawntrail_dye_table_5f", tier="thorough", unwind=40, timeout=3000, cbmc_args=FS1K, kani_args=["--no-assertion-reach-checks"],
  bounds="216-byte material: table flags 0x5F8 (dye table, dimension logs 0x5F, no colour table), 128 dye table bytes symbolic, the rest as the minimal material",
  encodes=["mtrl::Material::from_existing", "mtrl::parse_color_dye_table", "mtrl::MaterialData (BinRead)"], stubs=["core::str::validations::run_utf8_validation -> ASCII-only model"])
