"""Registry of Kani harnesses: which harness decides which property, in which tier, with which
bounds.  The harness sources live in harness/<module>.rs and are appended (as child module
`verif_kani`) to the Physis source file named in MODULES, inside a scratch copy of /repo."""
import os

# harness file (without .rs)  ->  source file of /repo it becomes a child module of
MODULES = {
    "race": "src/race.rs",
    "repository": "src/repository.rs",
    "equipment": "src/equipment.rs",
    "common": "src/common.rs",
    "blowfish": "src/blowfish/mod.rs",
    "crc": "src/crc.rs",
    "sha1": "src/sha1.rs",
    "sqpack_index": "src/sqpack/index.rs",
    "sqpack_mod": "src/sqpack/mod.rs",
    "sqpack_data": "src/sqpack/data.rs",
    "gamedata": "src/gamedata.rs",
    "compression": "src/compression.rs",
    "exd": "src/exd.rs",
    "exh": "src/exh.rs",
    "model": "src/model.rs",
    "model_ops": "src/model_file_operations.rs",
    "model_decl": "src/model_vertex_declarations.rs",
    "mtrl": "src/mtrl.rs",
    "shpk": "src/shpk.rs",
    "cfo": "src/common_file_operations.rs",
    "tex": "src/tex.rs",
    "bcn": "src/bcn/mod.rs",
    "chardat": "src/chardat.rs",
    "gearsets": "src/gearsets.rs",
    "dat": "src/dat.rs",
    "fiin": "src/fiin.rs",
    "patch": "src/patch.rs",
    "pbd": "src/pbd.rs",
    "cmp": "src/cmp.rs",
    "tera": "src/tera.rs",
    "layer": "src/layer/mod.rs",
    "log": "src/log.rs",
    "execlookup": "src/execlookup.rs",
    "stm": "src/stm.rs",
}


def rust_mod_path(module):
    p = MODULES[module]
    assert p.startswith("src/") and p.endswith(".rs")
    p = p[4:-3]
    if p.endswith("/mod"):
        p = p[:-4]
    return p.replace("/", "::")


def fq(h):
    return "%s::verif_kani::%s" % (rust_mod_path(h["module"]), h["name"])


HARNESSES = []


def H(prop, module, name, tier="quick", timeout=120, bounds="", encodes=(), stubs=(), assumes=(),
      expect="pass", replay="playback", unwind=None, kani_args=(), unwind_is_violation=False, note=""):
    HARNESSES.append(dict(prop=prop, module=module, name=name, tier=tier, timeout=timeout, bounds=bounds,
                          encodes=list(encodes), stubs=list(stubs), assumes=list(assumes), expect=expect,
                          replay=replay, unwind=unwind, kani_args=list(kani_args),
                          unwind_is_violation=unwind_is_violation, note=note))


def select(prop, tier):
    out = []
    for h in HARNESSES:
        if h["prop"] != prop:
            continue
        if tier == "quick" and h["tier"] != "quick":
            continue
        out.append(dict(h))
    return out


def generate(gendir, seed, tier, src):
    """Files generated at check time (reference tables, seed-dependent shape parameters)."""
    import gen_tables
    gen_tables.generate(gendir, seed, tier, src)


# ================================================================================================
# C15 — race codes, paths, repository names
# ================================================================================================
H("C15", "race", "c15_own_two_tribes", bounds="all 8 races",
  encodes=["race::get_supported_tribes"])
H("C15", "race", "c15_race_id_defined_iff_valid", bounds="all 8x16x2 (race, tribe, gender) triples",
  encodes=["race::get_race_id", "race::get_supported_tribes"])
H("C15", "race", "c15_race_id_injective", bounds="all pairs of (race, tribe, gender) triples",
  encodes=["race::get_race_id"])
H("C15", "race", "c15_race_id_table", bounds="all 8x16x2 triples vs the documented code table (2*k-1)*100+1",
  encodes=["race::get_race_id"])
H("C15", "race", "c15_try_from_tables", bounds="all 256 byte values for Race/Tribe/Gender::try_from",
  encodes=["race::Race::try_from", "race::Tribe::try_from", "race::Gender::try_from"])
H("C15", "race", "c15_pipeline_witness", expect="witness-fail", bounds="assert(false) twin: must be reported as failing")
