"""Registry of Kani harnesses: which harness decides which property, in which tier, with which
bounds.  The harness sources live in harness/<module>.rs and are appended (as child module
`verif_kani`) to the Physis source file named in MODULES, inside a scratch copy of /repo."""
import os

# harness file (without .rs)  ->  source file of /repo it becomes a child module of
MODULES = {
    "race": "src/race.rs",
    "repository": "src/repository.rs",
    "equipment": "src/equipment.rs",
    "common": "src/common.rs",
    "blowfish": "src/blowfish/mod.rs",
    "crc": "src/crc.rs",
    "sha1": "src/sha1.rs",
    "sqpack_index": "src/sqpack/index.rs",
    "sqpack_mod": "src/sqpack/mod.rs",
    "sqpack_data": "src/sqpack/data.rs",
    "gamedata": "src/gamedata.rs",
    "compression": "src/compression.rs",
    "exd": "src/exd.rs",
    "exh": "src/exh.rs",
    "model": "src/model.rs",
    "model_ops": "src/model_file_operations.rs",
    "model_decl": "src/model_vertex_declarations.rs",
    "mtrl": "src/mtrl.rs",
    "shpk": "src/shpk.rs",
    "cfo": "src/common_file_operations.rs",
    "tex": "src/tex.rs",
    "bcn": "src/bcn/mod.rs",
    "chardat": "src/chardat.rs",
    "gearsets": "src/gearsets.rs",
    "dat": "src/dat.rs",
    "fiin": "src/fiin.rs",
    "patch": "src/patch.rs",
    "pbd": "src/pbd.rs",
    "cmp": "src/cmp.rs",
    "tera": "src/tera.rs",
    "layer": "src/layer/mod.rs",
    "log": "src/log.rs",
    "execlookup": "src/execlookup.rs",
    "stm": "src/stm.rs",
}


def rust_mod_path(module):
    p = MODULES[module]
    assert p.startswith("src/") and p.endswith(".rs")
    p = p[4:-3]
    if p.endswith("/mod"):
        p = p[:-4]
    return p.replace("/", "::")


def fq(h):
    return "%s::verif_kani::%s" % (rust_mod_path(h["module"]), h["name"])


HARNESSES = []


def H(prop, module, name, tier="quick", timeout=120, bounds="", encodes=(), stubs=(), assumes=(),
      expect="pass", replay="playback", unwind=None, kani_args=(), unwind_is_violation=False, note=""):
    HARNESSES.append(dict(prop=prop, module=module, name=name, tier=tier, timeout=timeout, bounds=bounds,
                          encodes=list(encodes), stubs=list(stubs), assumes=list(assumes), expect=expect,
                          replay=replay, unwind=unwind, kani_args=list(kani_args),
                          unwind_is_violation=unwind_is_violation, note=note))


def select(prop, tier):
    out = []
    for h in HARNESSES:
        if h["prop"] != prop:
            continue
        if tier == "quick" and h["tier"] != "quick":
            continue
        out.append(dict(h))
    return out


def generate(gendir, seed, tier, src):
    """Files generated at check time (reference tables, seed-dependent shape parameters)."""
    import gen_tables
    gen_tables.generate(gendir, seed, tier, src)


# ================================================================================================
# C15 — race codes, paths, repository names
# ================================================================================================
H("C15", "race", "c15_own_two_tribes", bounds="all 8 races",
  encodes=["race::get_supported_tribes"])
H("C15", "race", "c15_race_id_defined_iff_valid", bounds="all 8x16x2 (race, tribe, gender) triples",
  encodes=["race::get_race_id", "race::get_supported_tribes"])
H("C15", "race", "c15_race_id_injective", bounds="all pairs of (race, tribe, gender) triples",
  encodes=["race::get_race_id"])
H("C15", "race", "c15_race_id_table", bounds="all 8x16x2 triples vs the documented code table (2*k-1)*100+1",
  encodes=["race::get_race_id"])
H("C15", "race", "c15_try_from_tables", bounds="all 256 byte values for Race/Tribe/Gender::try_from",
  encodes=["race::Race::try_from", "race::Tribe::try_from", "race::Gender::try_from"])
H("C15", "race", "c15_pipeline_witness", expect="witness-fail", bounds="assert(false) twin: must be reported as failing")

# ================================================================================================
# C11 — Blowfish
# ================================================================================================
_BF = ["blowfish::Blowfish::f", "blowfish::Blowfish::encrypt_pair", "blowfish::Blowfish::decrypt_pair"]
H("C11", "blowfish", "c11_f_is_spec", bounds="all 4x256 S-box words (symbolic, 4 KiB), all 2^32 x",
  encodes=["blowfish::Blowfish::f"])
H("C11", "blowfish", "c11_encrypt_pair_is_reference", unwind=66,
  bounds="all P arrays, all blocks (l, r), every F (abstract function, 32 calls)",
  encodes=["blowfish::Blowfish::encrypt_pair"], stubs=["Blowfish::f -> abstract function (Ackermann constraints)"],
  replay="playback")
H("C11", "blowfish", "c11_decrypt_inverts_encrypt", unwind=66,
  bounds="all P arrays, all blocks, every F (abstract function)",
  encodes=_BF[1:], stubs=["Blowfish::f -> abstract function (Ackermann constraints)"])
H("C11", "blowfish", "c11_encrypt_inverts_decrypt", unwind=66,
  bounds="all P arrays, all blocks, every F (abstract function)",
  encodes=_BF[1:], stubs=["Blowfish::f -> abstract function (Ackermann constraints)"])
_FR = dict(encodes=["blowfish::Blowfish::encrypt", "blowfish::Blowfish::decrypt", "blowfish::Blowfish::pad_buffer"],
           stubs=["Blowfish::encrypt_pair -> arbitrary injective function (recorded)",
                  "Blowfish::decrypt_pair -> its inverse on recorded outputs, arbitrary elsewhere (justified by c11_decrypt_inverts_encrypt)"],
           replay="structural", unwind=34)
for n, t in ((0, "quick"), (1, "quick"), (7, "thorough"), (8, "quick"), (9, "quick"), (13, "thorough"),
             (16, "thorough"), (17, "quick"), (24, "thorough")):
    H("C11", "blowfish", "c11_framing_len%d" % n, tier=t, timeout=300,
      bounds="message length %d (concrete), all message bytes symbolic" % n, **_FR)
H("C11", "blowfish", "c11_tables_are_pi", bounds="all 18 + 1024 table words vs pi digits generated at check time",
  encodes=["blowfish::constants::BLOWFISH_P", "blowfish::constants::BLOWFISH_S"])
_KS = dict(encodes=["blowfish::Blowfish::new"], replay="structural", unwind=130,
           stubs=["Blowfish::encrypt_pair -> recorder returning fresh nondeterministic pairs (521 calls)"])
H("C11", "blowfish", "c11_key_schedule_8", tier="quick", timeout=900, bounds="all 2^64 8-byte keys", **_KS)
H("C11", "blowfish", "c11_key_schedule_16", tier="thorough", timeout=1800, bounds="all 16-byte keys", **_KS)
H("C11", "blowfish", "c11_key_schedule_56", tier="thorough", timeout=1800, bounds="all 56-byte keys", **_KS)
H("C11", "blowfish", "c11_published_vector_zero_key", tier="thorough", timeout=1800, unwind=130,
  bounds="one concrete published vector (key 0^8, block 0^8) through new+encrypt; decided by constant propagation",
  encodes=["blowfish::Blowfish::new", "blowfish::Blowfish::encrypt"] + _BF)
H("C11", "blowfish", "c11_pipeline_witness", expect="witness-fail", bounds="assert(false) twin: must be reported as failing")
