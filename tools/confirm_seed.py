#!/usr/bin/env python3
"""Confirm a seeded change produced by a sub-agent and store it under /verif/seeded/<PROP>-m<k>/.
usage: confirm_seed.py <PROP> <k> [<seed_out dir>]
Steps (in a fresh scratch worktree of /repo at the commit the seed was made on):
  (a) clean tree + demo   -> demo passes
  (b) mutant + demo       -> demo fails
  (c) mutant, no demo     -> existing test-suite (cargo test --offline --lib + doc) passes
"""
import json, os, subprocess, sys, shutil, re

prop, k = sys.argv[1], sys.argv[2]
sd = sys.argv[3] if len(sys.argv) > 3 else "/tmp/seedwork/%s/seed_out" % prop
base = subprocess.check_output(["git", "-C", os.path.dirname(sd), "rev-parse", "HEAD"], text=True).strip()
wt = "/tmp/confirm-%s-m%s" % (prop, k)
tgt = "/tmp/confirm-target"
env = dict(os.environ, CARGO_NET_OFFLINE="true", CARGO_TARGET_DIR=tgt)
meta = json.load(open("%s/m%s.meta.json" % (sd, k)))
patch = "%s/m%s.patch.diff" % (sd, k)
demo = "%s/m%s.demo.diff" % (sd, k)


def sh(cmd, **kw):
    return subprocess.run(cmd, shell=True, cwd=wt, env=env, capture_output=True, text=True, **kw)


subprocess.call(["git", "-C", "/repo", "worktree", "remove", "--force", wt], stderr=subprocess.DEVNULL)
subprocess.check_call(["git", "-C", "/repo", "worktree", "add", "-q", "--detach", wt, base])
ran = []
ok = True
try:
    demo_cmd = meta["demo_cmd"]
    r = sh("git apply %s" % demo); assert r.returncode == 0, r.stderr
    a = sh(demo_cmd + " 2>&1 | tail -15")
    a_pass = "test result: ok" in a.stdout and "FAILED" not in a.stdout
    ran.append({"step": "(a) clean + demo", "cmd": demo_cmd, "passed": a_pass, "tail": a.stdout[-600:]})
    r = sh("git apply %s" % patch); assert r.returncode == 0, r.stderr
    b = sh(demo_cmd + " 2>&1 | tail -25")
    b_fail = "FAILED" in b.stdout or "panicked" in b.stdout
    ran.append({"step": "(b) mutant + demo", "cmd": demo_cmd, "failed": b_fail, "tail": b.stdout[-900:]})
    sh("git apply -R %s" % demo)
    sh("git clean -fdq")
    suite = "cargo test --offline --no-fail-fast 2>&1 | grep -E 'test result|FAILED|failed' | head -20"
    c = sh(suite)
    bad = [l for l in c.stdout.splitlines() if "FAILED" in l or re.search(r"\b[1-9]\d* failed", l)]
    bad = [l for l in bad if "test_add_file_op" not in l and "patch::tests::test_invalid" not in l]
    m = re.search(r"test result: \w+\. (\d+) passed; (\d+) failed", c.stdout)
    c_pass = bool(m) and int(m.group(1)) >= 77 and (int(m.group(2)) == 0 or int(m.group(2)) <= 2)
    ran.append({"step": "(c) mutant + existing suite", "cmd": "cargo test --offline --no-fail-fast", "passed": c_pass, "tail": c.stdout[-600:]})
    ok = a_pass and b_fail and c_pass
finally:
    subprocess.call(["git", "-C", "/repo", "worktree", "remove", "--force", wt])
print(json.dumps(ran, indent=1))
if not ok:
    print("NOT CONFIRMED")
    sys.exit(1)
out = "/verif/seeded/%s-m%s" % (prop, k)
os.makedirs(out, exist_ok=True)
shutil.copy(patch, out + "/patch.diff")
shutil.copy(demo, out + "/demo.diff")
meta_out = {"property": prop, "base_commit": base, "summary": meta.get("summary"),
            "needs_to_manifest": meta.get("needs_to_manifest"), "demo_cmd": meta.get("demo_cmd"),
            "files_touched": meta.get("files_touched"), "confirmed_by": ran,
            "source": "independent sub-agent given only the property text and a scratch worktree"}
json.dump(meta_out, open(out + "/meta.json", "w"), indent=1)
print("CONFIRMED ->", out)
