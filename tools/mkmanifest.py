#!/usr/bin/env python3
"""Regenerate /verif/MANIFEST.json from the registry and the per-property texts below."""
import json, os, sys
sys.path.insert(0, "/verif")
import registry

TECH = "bounded symbolic execution of the real Rust code with Kani 0.68 / CBMC 6.11 (solver-based checking): each harness's assertions are decided by SAT queries (CaDiCaL) over all values of its symbolic inputs within the stated bounds, unwinding assertions on; counterexamples are replayed natively before a violation is reported"

P = {
 "C01": dict(
   text="Bounded model checking of the lookup kernels: index entry word decode for all 2^32 words, path hash = JAMCRC of the ASCII-lower-cased path (bounded length), find_entry/exists over small symbolic entry tables, repository/category selection over symbolic path components.",
   note="Outside the claim: reading index files from disk, the enumeration of candidate index file names (format!), the per-handle cache, dat-file selection in extract (std::fs, not encodable). str::to_lowercase is stubbed by its ASCII contract.",
   ref="DESIGN.md section 4, C01"),
 "C02": dict(
   text='Bounded model checking of extraction: block header decode for all headers, read_data_block for raw blocks of enumerated lengths with symbolic content and for deflated blocks against an abstract inflate oracle, layout of the synthesized model file header for all field values, and reassembly of standard / texture (quick tier) and model (thorough tier) entries over an in-memory dat file at enumerated block tables with symbolic content.',
   note='Environment model: the std::fs::File field of SqPackData is an in-memory file in the scratch copy. Outside the claim: GameData::extract (dat selection, files on disk), block tables other than the listed ones; real deflate streams are replaced by an abstract oracle (only the call contract is checked).',
   ref="DESIGN.md section 4, C02"),
 "C03": dict(
   text='Bounded model checking of the ZiPatch command decoding, of the patch data block reader (alignment arithmetic), of the two file-writing kernels of apply over an in-memory file model, and (thorough tier) of ZiPatch::apply as a whole for patches made of a target-info command and one delete-data / expand-data / add-file / delete-file / make-directory command (and of two target-info commands in sequence): exact target file name from category / expansion / chunk / platform / file number, every byte of the touched file for symbolic previous contents, file count, Ok(()).',
   note='Environment and dependency models (listed per harness in the evidence): std::fs of patch.rs -> in-memory file table; format! -> digit-emission model validated against std on every run; layout-only models (repr(u8) on three enums of patch.rs, a niche-free binrw::Error) without which parsed values are not constants for symbolic execution (DESIGN.md section 2). Block offsets / counts / ids are concrete per harness. Outside the claim: apply for add-data and header-update commands (harnesses written; out of memory in the SAT back end: DESIGN.md section 4), several commands per patch, chains of patches, remove-all.',
   ref="DESIGN.md section 4, C03"),
 "C04": dict(
   text='Bounded model checking of the writer/reader law for patch data blocks: write_data_block_patch followed by read_data_block_patch returns the same bytes and consumes exactly what was written, for enumerated lengths around the 128-byte alignment boundary with symbolic content.',
   note='Outside the claim: ZiPatch::create and the tree-level law. Harnesses for create over the in-memory file model were written and measured in session 3 (no verdict: the path String borrowed through nested enums by the derived BinWrite is not a constant for symbolic execution, DESIGN.md section 4, C03); the reading note that files present in both trees are deleted by the created patch therefore remains undecided by any check.',
   ref="DESIGN.md section 4, C04"),
 "C05": dict(
   text="Bounded model checking of EXD::read_row / read_column: for every column type at enumerated concrete offsets the cell equals the stored big-endian value for all row bytes; strings, sub-rows, stride arithmetic beyond 16 bits and row lookup at enumerated shapes with symbolic contents.",
   note="Shapes (column type/offset, sub-row counts, ids) are concrete per harness and listed in the evidence; anything not listed is outside the claim, as are archive lookup (GameData, std::fs), whole-file EXH/EXD parsing and EXL text parsing. Page file names are decided through a model of std's formatting engine (the format string and arguments are Physis's; DESIGN.md section 2) for start ids below 100 000 and three ten-digit ids.",
   ref="DESIGN.md section 4, C05"),
 "C06": dict(
   text="Bounded model checking of the typed vertex attribute readers for all input bytes (every half pattern against an independent IEEE conversion, byte/255, tangents, raw tuples) and of the vertex declaration parser at enumerated declaration shapes.",
   note="half's run-time CPU dispatch is stubbed by the crate's portable conversion. Whole-file MDL::from_existing is decided for one generated minimal model in the thorough tier only (8-15 min); other layouts are outside the claim.",
   ref="DESIGN.md section 4, C06"),
 "C07": dict(
   text='Bounded model checking of the attribute codecs (write(read(b)) == b for all canonical encodings: all bytes, all non-NaN halves, floats bit-exact), of the declaration writer/parser round trip, of one inductive header-update step over symbolic mesh tables, and (thorough tier) of MDL::write_to_buffer on a minimal version-5 model: every section and vertex element at its byte position for symbolic attribute values.',
   note='Header-update step: widths reduced as stated per harness (symbolic products); write_to_buffer harnesses take 16-17 min each and are thorough-only; version-6 writing and whole-file write->parse->compare are outside the claim.',
   ref="DESIGN.md section 4, C07"),
 "C09": dict(
   text="Bounded model checking of the preset checksum against its definition, of the documented field offsets of a written preset, of the gear-id marker conversion for all 32-bit ids and of the dat header / gear slot layouts.",
   note="Outside the claim: the 100-set table as a whole and the XOR pass (HashMap with OS-seeded hashing, 45 KB buffers).",
   ref="DESIGN.md section 4, C09"),
 "C10": dict(
   text="Bounded model checking of the FIIN record layout (write and parse back at enumerated entry counts / name lengths with symbolic sizes, names and digests); digests are decided under C12.",
   note="Outside the claim: FileInfo::new (reads files) and the patch-list text format (std string code, see C08).",
   ref="DESIGN.md section 4, C10"),
 "C11": dict(
   text="Compositional bounded model checking of the whole cipher: F for all S-boxes and inputs, 16 rounds = Schneier's reference and decrypt = inverse for all P arrays and every F (abstract function), key schedule structure for all 2^64 8-byte keys (and 16/56-byte keys), ECB framing / zero padding / little-endian packing for enumerated lengths with symbolic content, tables = hexadecimal digits of pi generated at check time.",
   note="Message lengths are concrete per harness (0..24, listed in the evidence); longer messages are outside the claim (uniform loop body).",
   ref="DESIGN.md section 4, C11"),
 "C12": dict(
   text="Bounded model checking against bit-serial / FIPS 180 references: JAMCRC for all byte strings up to the stated length plus the inductive loop step from every register value; shader-key CRC (zlib-rs) for short strings; the SHA-1 compression function for ALL chaining values and blocks in one miter, round groups, message schedule, padding/length encoding at every boundary length with the compression function replaced by a block recorder.",
   note="Lengths beyond the listed ones are outside the claim; the SHA-1 reference mirrors the implementation's adder association (mod 2^32 addition is associative/commutative). Path-hash lower-casing is decided under C01.",
   ref="DESIGN.md section 4, C12"),
 "C13": dict(
   text="Bounded model checking against reference block decoders written from the BCn specification: BC1/BC3/BC5 blocks for all block bytes, edge clipping for enumerated image sizes up to 9x9, whole small images and the Texture::from_existing entry point at enumerated header shapes with symbolic payload and attribute flags.",
   note="Image sizes are concrete per harness (listed in the evidence); sizes up to 512 are outside the claim (uniform block loop). The alpha of BC1's black entry is unconstrained as the property says.",
   ref="DESIGN.md section 4, C13"),
 "C14": dict(
   text='Bounded model checking of the half-float tuple readers for all stored values, of colour/dye table rows through the real BinRead impls, of selector construction for all key lists up to the stated length, of node lookup over small symbolic node/alias tables, and of ShaderPackage::from_existing on a generated minimal package (counts concrete, every id / key / selector / pass field / alias target symbolic) including the selector table it builds.',
   note='Material::from_existing and shader packages with shaders / resource parameters (string offsets) are outside the claim.',
   ref="DESIGN.md section 4, C14"),
 "C15": dict(
   text='Bounded model checking over the complete finite domains: race/tribe/gender tables (definedness, injectivity, documented codes), slot and category tables, the equipment file name deconstructor at enumerated ids with symbolic surroundings, repository ordering for all triples of repository types, and the exact text of every built path and file name (index / index2 / dat names for all categories x expansions 0..9 x chunks 0..9 x platforms x data files 0..7; equipment, character, skeleton and material paths for all ids 0..9999 x valid triples x slots / categories).',
   note="Paths and file names are decided through a model of std's formatting engine: the format strings and argument wiring are Physis's own, core::fmt's interpreter is replaced by straight-line emission that is compared with std::format! natively on every run (DESIGN.md section 2). Outside the claim: the patch-side file names (closures in ZiPatch::apply), deconstruct on symbolic digits.",
   ref="DESIGN.md section 4, C15"),
 "C16": dict(
   text='Bounded model checking of the deformer chain walk over small symbolic link tables, of racial scaling rows, of terrain plate positions (parse and write) for all stored values, of layer heap strings (concrete text with non-graphic characters, symbolic surroundings) and of the Havok tag-file bit-level decoders (presence bit fields, packed integers) for all data bytes.',
   note='Outside the claim: the Havok object graph and skeleton extraction (pointer-rich object graphs), deformer parsing, the layer group grammar.',
   ref="DESIGN.md section 4, C16"),
 "C17": dict(
   text="Bounded model checking of panic-freedom of the shared string helpers, the patch data block reader, the gear-set file header / body bounds and the executable needle scan on bounded symbolic inputs; (thorough tier) a patch that ends before its EOF_ chunk, or in the middle of a command, makes ZiPatch::apply return an error rather than success.",
   note="Narrow: all other entry points of the property, I/O fault sequences, stack depth, run time and heap growth are outside the claim.",
   ref="DESIGN.md section 4, C17"),
 "C18": dict(
   text="Bounded model checking of the inflate stream lifecycle (zlib calls replaced by nondeterministic stubs with a ghost live-stream counter) and of panic-freedom of post-parse index arithmetic kernels on symbolic inputs.",
   note="Narrow: truncation / corrupted-count inputs that move the binrw cursor, archives on disk, Havok, dictionaries and resource bounds are outside the claim.",
   ref="DESIGN.md section 4, C18"),
}
NA = {
 "C08": "std text pipeline (BufReader::lines, split_once, str::parse, String growth) plus an OS-seeded HashMap: the positions of the structural characters depend on the symbolic bytes, so every slice bound and String length becomes symbolic (pushing one symbolic byte into a String, str::parse on symbolic digits and str slicing on symbolic bytes each ran out of memory or time, DESIGN.md section 3); with fully concrete text the harness would be a unit test run by a solver. The format! model built in session 2 removes only the writer's formatting cost, not the parser's. DESIGN.md section 5.",
}

props = sorted(set(h["prop"] for h in registry.HARNESSES))
checks = []
for p in props:
    checks.append({
        "property_id": p,
        "quick_cmd": "./check %s --tier quick" % p,
        "thorough_cmd": "./check %s --tier thorough" % p,
        "evidence_file": "/verif/evidence/%s.json" % p,
        "replay_cmd_template": "./check %s --replay {path}" % p,
        "engine": "kani-cbmc",
        "level_claimed": {"category": "model_checking", "text": P[p]["text"], "design_ref": P[p]["ref"]},
        "level_note": P[p]["note"],
        "technique": TECH,
    })
all_ids = [json.loads(l)["id"] for l in open("/verif/properties.jsonl")]
na = []
for i in all_ids:
    if i in props:
        continue
    na.append({"property_id": i, "reason": NA.get(i, "no check built yet for this property; see DESIGN.md")})
m = {
 "version": 1,
 "setup_cmd": "true",
 "hooks": {"guard": "cfg(kani)",
           "enable": "none needed: harness modules are appended to a scratch copy of /repo's working tree under #[cfg(kani)], which only the Kani compiler sets; /repo itself carries no instrumentation",
           "baseline_off_cmd": "cd /repo && cargo test --workspace --no-fail-fast --offline",
           "source_commits": [], "add_only": True},
 "engines": [{"name": "kani-cbmc", "path": "/verif/check", "serves_properties": props,
              "kind_free_text": "Kani 0.68 proof harnesses (harness/*.rs) compiled into a scratch copy of /repo's current working tree (with dependency / environment models for binrw's fast paths and error diagnostics, std's formatting engine and std::fs in patch.rs, see DESIGN.md section 2); CBMC 6.11 + CaDiCaL decide every assertion; tools/ hold the seeding helpers"}],
 "checks": checks,
 "not_applicable": na,
 "notes": "Fix commits in /repo are listed in known_findings.json (status fixed). See DESIGN.md for bounds, stubs and what each check cannot see.",
}
json.dump(m, open("/verif/MANIFEST.json", "w"), indent=1)
print("claimed:", props, "n/a:", [x["property_id"] for x in na])
