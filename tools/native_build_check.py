#!/usr/bin/env python3
"""Development aid: make sure every harness file also compiles in the native (cargo test, cfg(kani))
build that concrete playback uses -- otherwise a real counterexample would end as INCONCLUSIVE."""
import os, subprocess, sys, shutil, tempfile
sys.path.insert(0, "/verif")
import registry, gen_tables
d = tempfile.mkdtemp(prefix="verif-native-")
src = d + "/physis"
subprocess.check_call(["rsync", "-a", "--exclude", "/target", "--exclude", "/.git", "/repo/", src + "/"])
shutil.copytree("/verif/harness", d + "/harness")
os.makedirs(d + "/harness/gen", exist_ok=True)
gen_tables.generate(d + "/harness/gen", 0, "quick", src)
open(src + "/src/lib.rs", "a").write('\n#[cfg(kani)] #[path = "%s/harness/support/mod.rs"] pub(crate) mod verif_support;\n' % d)
for m, target in registry.MODULES.items():
    if os.path.exists("/verif/harness/%s.rs" % m):
        open(src + "/" + target, "a").write('\n#[cfg(kani)] #[path = "%s/harness/%s.rs"] mod verif_kani;\n' % (d, m))
env = dict(os.environ, CARGO_NET_OFFLINE="true")
r = subprocess.run(["cargo", "kani", "playback", "-Z", "concrete-playback", "--only-codegen"], cwd=src, env=env, capture_output=True, text=True)
out = r.stdout + r.stderr
errs = [l for l in out.splitlines() if l.startswith("error")]
print("\n".join(errs[:40]))
import re
for m in re.finditer(r"(error[^\n]*\n(?:[^\n]*\n){0,7})", out):
    print(m.group(1)[:900])
    break
print("rc", r.returncode)
shutil.rmtree(d, ignore_errors=True)
