#!/bin/bash
# development aid: run one harness in a fresh scratch copy and print the verdict lines
# usage: probe.sh <harness-module[,module]> <module::path::harness> <timeout_s> [extra cargo-kani args...] [--cbmc-args ...]
M="$1"; H="$2"; T="$3"; shift 3
S="$(/verif/check CXX --prepare-only --modules "$M" | tail -1)"
case "$S" in /tmp/verif-*) ;; *) echo "no scratch: $S"; exit 2;; esac
[ -d "$S/physis" ] || { echo "no scratch dir"; exit 2; }
cd "$S/physis" || exit 2
START=$(date +%s)
timeout "$T" cargo kani --target-dir "$S/target" -Z stubbing -Z unstable-options --exact --harness "$H" "$@" > "$S/probe.log" 2>&1
RC=$?
END=$(date +%s)
echo "probe $H rc=$RC wall=$((END-START))s"
grep -E "^error|VERIFICATION|Runtime Solver|Runtime decision|SUMMARY|\*\* [0-9]+ of|out of memory|SATISFIED|UNSATISFIABLE" "$S/probe.log" | head -40
grep -A3 "Status: FAILURE" "$S/probe.log" | grep -E "Description|Location" | head -30
cp "$S/probe.log" "/tmp/probe-${H##*::}.log"
cd /tmp; if [ -z "$KEEP" ]; then rm -rf "$S"; else echo "scratch kept: $S"; fi
