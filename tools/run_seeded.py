#!/usr/bin/env python3
"""Run the registered check of a seeded change's property against a private copy of /repo with the
change applied (never touches /repo, never overwrites /verif/evidence).
usage: run_seeded.py <seed-id> [--tier quick|thorough] [--only h1,h2]
Writes /verif/seeded/<seed-id>/detection.json."""
import json, os, subprocess, sys, shutil, time, re

seed = sys.argv[1]
tier = "quick"
extra = []
args = sys.argv[2:]
while args:
    a = args.pop(0)
    if a == "--tier":
        tier = args.pop(0)
    elif a == "--only":
        extra = ["--only", args.pop(0)]
sd = "/verif/seeded/%s" % seed
meta = json.load(open(sd + "/meta.json"))
prop = meta["property"]
props = meta.get("check_properties") or [prop]
work = "/tmp/seedrun-%s" % seed
shutil.rmtree(work, ignore_errors=True)
os.makedirs(work)
repo = work + "/repo"
subprocess.check_call(["rsync", "-a", "--exclude", "/target", "--exclude", "/.git", "/repo/", repo + "/"])
r = subprocess.run(["git", "apply", "--unsafe-paths", "--directory", repo, sd + "/patch.diff"], capture_output=True, text=True, cwd="/")
if r.returncode != 0:
    r = subprocess.run(["patch", "-p1", "-d", repo, "-i", sd + "/patch.diff"], capture_output=True, text=True)
    if r.returncode != 0:
        print("patch does not apply:", r.stdout, r.stderr)
        sys.exit(2)
results = []
for p in props:
    env = dict(os.environ, VERIF_REPO=repo, VERIF_OUT=work + "/out")
    t0 = time.time()
    c = subprocess.run(["/verif/check", p, "--tier", tier] + extra, capture_output=True, text=True, env=env)
    viol = [l for l in c.stdout.splitlines() if l.startswith("VIOLATION")]
    detail = [l.strip() for l in c.stdout.splitlines() if l.startswith("  harness")]
    results.append({"property": p, "tier": tier, "exit": c.returncode, "violation_lines": viol, "detail": detail[:6],
                    "other": [l for l in c.stdout.splitlines() if l.startswith(("INCONCLUSIVE", "BROKEN", "UNDECIDED"))][:6],
                    "wall_s": round(time.time() - t0)})
    print(c.stdout[-1500:])
det = {"seed": seed, "detected": any(x["exit"] == 1 and x["violation_lines"] for x in results), "runs": results,
       "at": time.strftime("%Y-%m-%dT%H:%M:%S")}
old = {}
if os.path.exists(sd + "/detection.json"):
    old = json.load(open(sd + "/detection.json"))
hist = old.get("history", [])
hist.append(det)
json.dump({"latest": det, "history": hist[-5:]}, open(sd + "/detection.json", "w"), indent=1)
shutil.rmtree(work, ignore_errors=True)
print("DETECTED" if det["detected"] else "MISSED", seed)
