#!/usr/bin/env python3
"""Print the markdown table of seeded changes and their detection (DESIGN.md section 8)."""
import json, os
rows = []
for s in sorted(os.listdir("/verif/seeded")):
    d = "/verif/seeded/" + s
    m = json.load(open(d + "/meta.json"))
    det = json.load(open(d + "/detection.json"))["latest"] if os.path.exists(d + "/detection.json") else None
    if det is None:
        res, by = "not run", ""
    else:
        res = "**caught**" if det["detected"] else "missed"
        hs = []
        for r in det["runs"]:
            for l in r.get("detail", []):
                h = l.strip().split()[1] if l.strip().startswith("harness") else ""
                if h:
                    hs.append(h)
            if not det["detected"]:
                for o in r.get("other", []):
                    if o.startswith(("INCONCLUSIVE", "BROKEN")):
                        hs.append(o.split(":")[0])
        by = ", ".join(dict.fromkeys(hs))[:120]
        tiers = sorted(set(r.get("tier", "quick") for r in det["runs"]))
        res += " (%s)" % "/".join(tiers)
    summ = (m.get("summary") or "").replace("\n", " ").replace("|", "/")
    rows.append("| %s | %s | %s | %s |" % (s, summ[:150], res, by))
print("| seed | change (sub-agent's summary, shortened) | result (tier of the run) | harness(es) |")
print("|---|---|---|---|")
print("\n".join(rows))
n = len(rows)
c = sum(1 for r in rows if "**caught**" in r)
q = sum(1 for r in rows if "**caught** (quick)" in r)
print("\n%d of %d seeded changes are caught (%d of them by the quick tier, the others by the thorough-tier harness named)." % (c, n, q))
