#!/usr/bin/env python3
"""Regenerate the seeded-change table at the end of DESIGN.md (everything behind the SEED-TABLE marker)."""
import subprocess
p = "/verif/DESIGN.md"
s = open(p).read()
m = "<!-- SEED-TABLE -->\n"
i = s.index(m)
t = subprocess.check_output(["python3", "/verif/tools/seed_table.py"], text=True)
open(p, "w").write(s[:i] + m + "\n" + t)
